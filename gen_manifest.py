#!/usr/bin/env python3
"""writes /verif/MANIFEST.json from the tables below (kept in one place so it always validates)"""
import json, os
V = os.path.dirname(os.path.abspath(__file__))

CLAIMED = {
 "C12": dict(
   text="Bounded model checking (Kani->CBMC->CaDiCaL) of the real QDLDL unit chain: permutation validation/inversion, symmetric permutation map, elimination tree + symbolic factor, numeric LDL' (exact field arithmetic GF(p) for the algebraic identity, bit-precise f64 for regularisation/inertia logic), triangular solves, value update + refactor. Every harness quantifies over all inputs within its stated size bound; unwinding assertions on.",
   note="Bounds n<=4/5; patterns enumerated, values symbolic. Floating-point accuracy ('backward-stable') is outside the claim; GF(p) results are about the algebra of the code path, not rounding. Trusted: Kani/CBMC, rustc MIR, the thin forwarders in src/qdldl/verif_hooks.rs.",
   design="DESIGN.md §3 C12"),
}

NOT_APPLICABLE = {
 "C06": "distributional claim (>=99.5% Solved, p95 iteration envelope) over whole interior-point runs: a solver verdict is not a frequency and the floating-point iteration has no bounded symbolic encoding within reach",
 "C19": "serde_json serialisation/parsing is string processing with input-length loops and decimal<->binary float conversion; neither Kani nor an SMT encoding of its MIR gets through it at a useful bound",
}

def main():
    import harnesses as REG
    checks = []
    for pid in sorted(CLAIMED):
        c = CLAIMED[pid]
        checks.append({
            "property_id": pid,
            "quick_cmd": "bin/check %s --tier quick" % pid,
            "thorough_cmd": "bin/check %s --tier thorough" % pid,
            "evidence_file": "/verif/evidence/%s.json" % pid,
            "replay_cmd_template": "bin/check %s --replay {path}" % pid,
            "engine": "kani",
            "level_claimed": {"category": "model_checking", "text": c["text"], "design_ref": c["design"]},
            "level_note": c["note"],
            "technique": c.get("technique", "bounded model checking of the compiled Rust code with Kani 0.68 (CBMC 6.11 + CaDiCaL SAT): symbolic inputs via kani::any(), property as assertion, unwinding assertions, counterexample replayed natively"),
        })
    props = [json.loads(l)["id"] for l in open(os.path.join(V, "properties.jsonl"))]
    na = []
    for pid in props:
        if pid in CLAIMED:
            continue
        na.append({"property_id": pid, "reason": NOT_APPLICABLE.get(pid, "not yet built in this session (see DESIGN.md); no check is claimed")})
    m = {
        "version": 1,
        "setup_cmd": "bin/setup",
        "hooks": {
            "guard": "oxfordcontrol_clarabel_rs_verif",
            "enable": "RUSTFLAGS='--cfg oxfordcontrol_clarabel_rs_verif' (set by bin/check for every cargo kani / playback invocation; /repo is a path dependency of /verif/kani)",
            "baseline_off_cmd": "cd /repo && cargo test --workspace --no-fail-fast --offline",
            "source_commits": HOOK_COMMITS,
            "add_only": True,
        },
        "engines": [{"name": "kani", "path": "/verif/kani", "serves_properties": sorted(CLAIMED),
                     "kind_free_text": "Kani 0.68 proof harnesses (one cargo feature per property) over /repo as a path dependency; driver /verif/bin/check; registry /verif/harnesses.py"}],
        "checks": checks,
        "not_applicable": na,
        "notes": "Exit codes of bin/check: 0 all harnesses passed (or only KNOWN-FINDING), 1 reproduced counterexample (VIOLATION line), 2 inconclusive (timeout/OOM/unsatisfied cover/non-reproducing counterexample) - never reported as success. Genuine defects found and repaired are listed in known_findings.json.",
    }
    json.dump(m, open(os.path.join(V, "MANIFEST.json"), "w"), indent=1)

HOOK_COMMITS = ["dc24f71"]
if __name__ == "__main__":
    main()
