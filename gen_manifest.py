#!/usr/bin/env python3
"""writes /verif/MANIFEST.json from the tables below (kept in one place so it always validates)"""
import json, os
V = os.path.dirname(os.path.abspath(__file__))

_KANI = "Bounded model checking (Kani 0.68 -> CBMC 6.11 -> CaDiCaL) of the real compiled Rust code: inputs are kani::any() symbolic values, the property is an assertion, unwinding assertions are on, every harness carries a reachability (cover) witness; a counterexample is replayed natively before it is reported. "
_TB = " Trusted: Kani/CBMC/rustc MIR; the guarded forwarders in /repo (verif_hooks*.rs, add-only)."
CLAIMED = {
 "C01": dict(text=_KANI + "Decides, for every f64 bit pattern of every termination quantity and tolerance, that status Solved is set iff the documented inequalities hold; exactly over GF(13) that the returned x,s,z are the iterate with equilibration and homogenisation undone; and that every termination quantity (costs, residuals, gaps, kappa/tau) computed by the real DefaultResiduals::update + DefaultInfo::update from the equilibrated presentation equals the one computed from the user's data with the unscaled iterate (GF(13) with symbolic scalings d,e; f64 with power-of-two scalings in the thorough tier); cached norms of q and b are the norms of the user's data after updates. That the IPM reaches such an iterate is not decided.",
   note='Reduced scope: verdict logic + termination quantities + unscale/post-process kernels (n=1..2, m=1..2). Outside: convergence, rounding of norms, PSD, faer. Assumes check_termination is entered with status Unsolved (decided in C04).' + _TB, design="DESIGN.md §3 C01, §6"),
 "C02": dict(text=_KANI + "Decides, bit-precisely at f64, that PrimalInfeasible/DualInfeasible are set iff the documented certificate inequalities hold (primal first) and AlmostPrimal/DualInfeasible only under the reduced tolerances from an error/limit status; that objectives are NaN iff the status is an infeasibility verdict; and (GF(13)) that certificates are normalised by kappa in the user's coordinates.",
   note="Reduced scope: verdict logic and reporting kernels. The two products the oracle recomputes take ONE factor from {+-2^k, 0, inf, NaN} (two harnesses swap which); everything else all f64. Outside: that a certificate is found; size of A'z." + _TB, design="DESIGN.md §3 C02, §6"),
 "C03": dict(text=_KANI + "Decides that Almost* statuses arise only from error/limit statuses and only under the reduced tolerances, that rollback restores the saved iterate bit-for-bit, and that what the user reads (status, objectives, residuals, iterations, time, vectors) is what the solver holds.",
   note="Reduced scope. Outside: agreement of reported residual figures with an independent recomputation (floating-point norms)." + _TB, design="DESIGN.md §3 C03, §6"),
 "C04": dict(text=_KANI + "Runs the REAL generic Solver::solve main loop with stub components returning arbitrary values and the REAL DefaultInfo verdict logic: for all numerical behaviours the loop returns, in a terminal status, within max_iter iterations and max_iter+2 passes, stopping at the first check after the time limit. Plus: dimension checks reject exactly the inconsistent inputs.",
   note="Bounds max_iter<=2 quick / <=4 thorough. Outside: panics/hangs inside the numeric components for extreme data; wall clock. Stubs: Timers methods, RandomState::new, barrier search cut to 3 evaluations." + _TB, design="DESIGN.md §3 C04, §6"),
 "C05": dict(text=_KANI + "Decides two mechanisms behind 'equivalent formulations agree': a full symmetric P is reduced to the canonical upper triangle and a triu P is taken as is (CscMatrix::to_triu / is_triu, all 2x2 patterns, symbolic values); and the equilibrated internal data are exactly the recorded scaling c D P D, E A D, c D q, E b of the user's data (GF(13), incl. the scalar rectification of second-order cones), so equilibration on/off present the same problem.",
   note="Cone collapsing (split/merged nonnegative cones) is NOT decided (Vec<enum> output: intractable, DESIGN 6.2.15). Everything else in C05 (permutations, scaling, backends, threads, concurrency, repeatability) compares end-to-end floating-point runs: NOT decided." + _TB, design="DESIGN.md §3 C05, §6"),
 "C07": dict(text=_KANI + 'Decides that the starting iterate produced by the initial shift is strictly inside the nonnegative cone for every f64 input up to 1e100 (also when the violation is 2^53 times the target margin), that the tau/kappa step length lies in [0,1] and is the exact distance to the boundary, that NN/SOC step lengths lie in [0, alpha_max] for every f64, and - by running the real main loop with a POISONED iteration budget - that nothing but the termination check reads the remaining budget and every step taken under dual scaling was the one last accepted by the barrier test.',
   note="Reduced scope. Outside: strict interiority after a step for SOC/exp/pow/PSD; tau',kappa'>0 after the step (two roundings of a product). The clock is a model validated natively against the real Timers (tv_timers)." + _TB, design="DESIGN.md §3 C07, §6"),
 "C08": dict(text=_KANI + "Decides the public update traits that update_P/q/A/b delegate to, for every argument form: accepted updates write value*scale*c at the true coordinates (exact over GF(13)); wrong lengths, out-of-range indices and pattern mismatches are errors that leave whole-vector/matrix targets untouched; empty updates are no-ops; cached norms are recomputed; and the real DirectLDLKKTSolver::update_P/update_A/update push every new value into the LDL engine's own copy (mirror engine) while the solver's KKT copy keeps an unregularised diagonal.",
   note='Outside: check_data_update_allowed on a live DefaultSolver (constructing one needs AMD); end-to-end agreement of the following solve.' + _TB, design="DESIGN.md §3 C08, §6"),
 "C09": dict(text=_KANI + "Decides the presolver at the kernel level: which rows are dropped (all f64 incl. NaN/inf), the reduced A,b,cones, the restoration of s,z at the user's length with z=0 and s=bound, that the bound is captured at construction, and - through the REAL DefaultProblemData::new with an active presolver - that rows of other cones at or above the bound are capped, never dropped.",
   note='m=4, 8 cone layouts, enumerated A patterns/drop masks with symbolic values. Outside: that the reduced solve is a solve of the hand-reduced problem (IPM).' + _TB, design="DESIGN.md §3 C09, §6"),
 "C10": dict(text=_KANI + 'Decides on the REAL generic equilibrate over GF(13), for all data (one Ruiz sweep quick, two thorough), that the factors applied to P,q,A,b are exactly the recorded d,e,c, that dinv,einv are their inverses and that E is constant over non-scalar cones; at f64 that disabling leaves the data untouched and - thorough tier only, 20-40 min each - that zero rows/columns stay unscaled and (data = powers of two over 24 orders of magnitude) the cumulative d,e,c stay within [min,max]; quick tier: every row and column factor of NON-SQUARE data is clipped into [min,max] (one sweep).',
   note='Outside: cumulative bounds for general significands (rounded products); PSD.' + _TB, design="DESIGN.md §3 C10, §6"),
 "C11": dict(text=_KANI + "Decides the KKT assembly: every P, A, diagonal, Hs-block and second-order-cone sparse-expansion (u, v, D) entry sits at its recorded position with the user's value, index sets are disjoint and cover K, in both triangles; that the dense/sparse SOC block written into K is the operator mul_Hs (GF(7) dense, GF(17) sparse expansion), also after set_identity_scaling from arbitrary leftovers; and that regularise/refactor/restore keeps the engine's copy in sync and the solver's copy unregularised (mirror engine).",
   note='n=2; enumerated P patterns, A patterns and cone layouts incl. [SOC5], [SOC2,SOC5], symbolic values. Sparse layouts go through the hook assemble_kkt_matrix_soc_store (validated natively by tv_kkt). Outside: GenPow expansion; the real LDL engines.' + _TB, design="DESIGN.md §3 C11, §6"),
 "C12": dict(text=_KANI + "Decides the QDLDL unit chain: permutation validation/inversion, symmetric permutation map, elimination tree + factorisation (L D L' = A exactly over GF(13) for all values, Ok iff all leading minors nonzero), triangular solves, refactor = fresh factor, regularisation/inertia logic at f64, and - through the public QDLDLFactorisation API - that positive_inertia() is the number of positive pivots after new and after update_values + refactor.",
   note="n<=3 quick / n<=4 thorough; patterns enumerated, values/perms symbolic. Outside: backward stability, AMD." + _TB, design="DESIGN.md §3 C12, §6"),
 "C13": dict(text=_KANI + "Decides over GF(7) (GF(13) thorough), for all field values, operator identities of the NN and SOC scalings as computed by the real generic code: W^-1 W = W W^-1 = I, W symmetric, mul_W's alpha/beta form, Hs = W'W = the KKT block (dense, and the sparse expansion eta^2(D+uu'-vv') in dimension 5), w normalised and eta^4 = res(s)/res(z), set_identity_scaling resets the whole scaling state incl. the sparse expansion from arbitrary leftovers, Jordan product laws, affine and corrector terms; NN: Hs z = s, lambda^2 = s o z, W^-1 W = I, the ds offset; at f64 the NN KKT block equals s/z exactly and is the operator mul_Hs over 240 binades (no capping).",
   note="SOC dim 3/5, NN dim 2. Outside: the SOC Nesterov-Todd identity (W'W) z = s itself (depends on a coherent choice of nested square roots, no meaning in a field: DESIGN 6.6); floating-point conditioning; PSD (LAPACK)." + _TB, design="DESIGN.md §3 C13, §6"),
 "C14": dict(text=_KANI + "Runs the REAL generic exp/pow cone code at first-order jets over GF(13) (exact differentiation; ln/powf uninterpreted with their derivative rules) and decides that the stored gradient is the derivative of the dual barrier and the stored Hessian the derivative of the gradient, that the dual-scaling fallback is mu*H, that PowerCone::gradient_primal assembles its three components consistently from whatever its scalar Newton solve returns (f64, sign of s3 included), that the explicit 3x3 Cholesky factorisation used by the third-order correction satisfies L L' = H (fails only for a vanishing leading minor), and that the power cone's primal and dual membership predicates depend on the third coordinate only through its magnitude (exp/ln uninterpreted).",
   note="Outside: higher_correction == -1/2 third derivative (attempted in five formulations, SAT does not finish within an hour: DESIGN 6.2.19), membership predicates, the Newton / Wright-omega scalar solves inside gradient_primal (hence conjugacy itself), primal-dual scaling matrix, unit_initialization, generalised power cone." + _TB, design="DESIGN.md §3 C14, §6"),
 "C15": dict(text=_KANI + 'Decides, bit-precisely for every f64, that SOC/NN/zero/composite step lengths lie in [0, alpha_max], that the NN ratio test is exact (power-of-two data), that the SOC step with a nonzero tail is exactly the smallest positive root of the boundary quadratic (two positive roots, a +/- pair, none, and the degenerate single root of a direction on the boundary of -K; power-of-two data down to 2^-60; found and repaired F4), that the backtracking search returns the first accepted candidate for an ARBITRARY membership oracle, however many reductions it takes (up to 71), and 0 - never an untested value - when every candidate down to alpha_min is rejected, and that the NN shift places points strictly inside.',
   note='Outside: numerical tightness of the SOC root; exp/pow membership predicates; PSD.' + _TB, design="DESIGN.md §3 C15, §6"),
 "C16": dict(text=_KANI + "Decides the CSC operations against their dense meaning: check_format = canonical predicate, queries, transpose, dropzeros, to_triu, select_rows, triplets, set_entry, concatenation, gemv/symv/quad_form/scalings/sums (exact over GF(13)), norms (f64).",
   note="Shapes <= 3x3/4x2. Symbolic patterns where the result size is data independent, enumerated patterns with symbolic values otherwise." + _TB, design="DESIGN.md §3 C16, §6"),
 "C17": dict(text=_KANI + "Decides ONLY the hash-free units of the chordal analysis: union-find (inductively: one query/union from an arbitrary valid state on 8 elements), Kruskal spanning forest on weighted clique graphs, graph connection, aggregate sparsity mask.",
   note="Clique-tree validity, running intersection, coverage, merge strategies are IndexSet/HashMap based and NOT decided." + _TB, design="DESIGN.md §3 C17, §6"),
 "C18": dict(text=_KANI + "Decides ONLY the index kernels of the decomposition: triangular index maps (all indices < 2^32), sub-block map, parent block indices, row subsets, alternating/extra-column sequences, overlap counting.",
   note="find_compact_A_b_and_cones, reversal, psd_complete (HashMap/LAPACK) and end-to-end equivalence are NOT decided." + _TB, design="DESIGN.md §3 C18, §6"),
}

NOT_APPLICABLE = {
 "C20": "every print entry point and even the PrintTarget Write impl pull the std formatting / stdout / file machinery (float-to-decimal tables, io::Error's bit-packed representation) into the goto program: CBMC exceeds 25 GB before symbolic execution gets anywhere, also with std::fmt::write and std::fmt::format stubbed (harness kept in kani/src/c20.rs for reference); nothing smaller stands for the property",
 "C06": "distributional claim (>=99.5% Solved, p95 iteration envelope) over whole interior-point runs: a solver verdict is not a frequency and the floating-point iteration has no bounded symbolic encoding within reach",
 "C19": "serde_json serialisation/parsing is string processing with input-length loops and decimal<->binary float conversion; neither Kani nor an SMT encoding of its MIR gets through it at a useful bound",
}

def main():
    import harnesses as REG
    checks = []
    for pid in sorted(CLAIMED):
        c = CLAIMED[pid]
        checks.append({
            "property_id": pid,
            "quick_cmd": "bin/check %s --tier quick" % pid,
            "thorough_cmd": "bin/check %s --tier thorough" % pid,
            "evidence_file": "/verif/evidence/%s.json" % pid,
            "replay_cmd_template": "bin/check %s --replay {path}" % pid,
            "engine": "kani",
            "level_claimed": {"category": "model_checking", "text": c["text"], "design_ref": c["design"]},
            "level_note": c["note"],
            "technique": c.get("technique", "bounded model checking of the compiled Rust code with Kani 0.68 (CBMC 6.11 + CaDiCaL SAT): symbolic inputs via kani::any(), property as assertion, unwinding assertions, counterexample replayed natively"),
        })
    props = [json.loads(l)["id"] for l in open(os.path.join(V, "properties.jsonl"))]
    na = []
    for pid in props:
        if pid in CLAIMED:
            continue
        na.append({"property_id": pid, "reason": NOT_APPLICABLE.get(pid, "not yet built in this session (see DESIGN.md); no check is claimed")})
    m = {
        "version": 1,
        "setup_cmd": "bin/setup",
        "hooks": {
            "guard": "oxfordcontrol_clarabel_rs_verif",
            "enable": "RUSTFLAGS='--cfg oxfordcontrol_clarabel_rs_verif' (set by bin/check for every cargo kani / playback invocation; /repo is a path dependency of /verif/kani)",
            "baseline_off_cmd": "cd /repo && cargo test --workspace --no-fail-fast --offline",
            "source_commits": HOOK_COMMITS,
            "add_only": True,
        },
        "engines": [{"name": "kani", "path": "/verif/kani", "serves_properties": sorted(CLAIMED),
                     "kind_free_text": "Kani 0.68 proof harnesses (one cargo feature per property) over /repo as a path dependency; driver /verif/bin/check; registry /verif/harnesses.py"}],
        "checks": checks,
        "not_applicable": na,
        "notes": "Exit codes of bin/check: 0 all harnesses passed (or only KNOWN-FINDING), 1 reproduced counterexample (VIOLATION line), 2 inconclusive (timeout/OOM/unsatisfied cover/non-reproducing counterexample) - never reported as success. Genuine defects found and repaired are listed in known_findings.json.",
    }
    json.dump(m, open(os.path.join(V, "MANIFEST.json"), "w"), indent=1)

HOOK_COMMITS = ["dc24f71", "7b630f7", "7afaea3", "096dc4a", "f4bae9a", "c6d6fec", "b2419db"]
if __name__ == "__main__":
    main()
