//! C16 — sparse-matrix (CSC) operations agree with their dense mathematical meaning.
//!
//! Structure-only operations run at T = i32 (CscMatrix<T: Num+Copy> is generic), numeric kernels
//! at GF(13) (exact) and order-based kernels (norms) at f64.  In-place / read-only operations
//! take a *symbolic* canonical pattern; operations that allocate their result with a
//! data-dependent size take enumerated concrete patterns with symbolic values.
use crate::fp::*;
use crate::gen::*;
use clarabel::algebra::verif_hooks as ah;
use clarabel::algebra::*;
use num_traits::{One, Zero};

type F = F13;

// ------------------------------------------------------------------------------------------
// check_format accepts exactly the canonical encodings
// ------------------------------------------------------------------------------------------
fn format_n<const M: usize, const N: usize, const NNZ: usize>() {
    // arbitrary vectors of the right *capacity*; lengths may also be inconsistent (see variants)
    let colptr: [usize; 4] = kani::any();
    let rowval: [usize; NNZ] = kani::any();
    let A = CscMatrix::<i32> { m: M, n: N, colptr: colptr[..N + 1].to_vec(), rowval: rowval.to_vec(), nzval: vec![1; NNZ] };
    let ok = A.check_format().is_ok();
    assert!(ok == is_canonical(&A), "check_format_accepts_exactly_canonical_encodings");
    kani::cover!(ok, "canonical encoding accepted");
    kani::cover!(!ok && A.colptr[N] == NNZ, "non-canonical encoding rejected");
}

#[kani::proof]
#[kani::unwind(6)]
pub fn c16_format_3x3_nnz3() {
    format_n::<3, 3, 3>();
}
#[kani::proof]
#[kani::unwind(6)]
pub fn c16_format_2x3_nnz4() {
    format_n::<2, 3, 4>();
}
#[kani::proof]
#[kani::unwind(6)]
pub fn c16_format_3x2_nnz2() {
    format_n::<3, 2, 2>();
}

/// inconsistent vector lengths are rejected
#[kani::proof]
#[kani::unwind(6)]
pub fn c16_format_lengths() {
    // n = 2 but colptr of length 2, 3 (right), 4 ; nzval shorter than rowval
    let c: [usize; 4] = kani::any();
    for cl in [2usize, 3, 4] {
        for shortvals in [false, true] {
            let nz = if shortvals { vec![1i32] } else { vec![1i32, 1] };
            let A = CscMatrix::<i32> { m: 2, n: 2, colptr: c[..cl].to_vec(), rowval: vec![0, 1], nzval: nz };
            let ok = A.check_format().is_ok();
            if shortvals || cl != 3 {
                assert!(!ok, "length_mismatch_rejected");
            } else {
                assert!(ok == is_canonical(&A), "right_lengths_decided_by_content");
            }
        }
    }
    kani::cover!(c[0] == 0 && c[1] == 1 && c[2] == 2, "canonical content");
}

// ------------------------------------------------------------------------------------------
// read-only queries on a symbolic canonical matrix
// ------------------------------------------------------------------------------------------
fn queries_n<const M: usize, const N: usize, const NNZ: usize>() {
    let A = any_csc_i32::<M, N, NNZ>();
    let d = dense_i32::<M, N>(&A);
    assert!(A.check_format().is_ok(), "generator_produces_canonical");
    assert!(A.nnz() == NNZ);
    // structural occupancy
    let mut occ = [[false; N]; M];
    let mut k = 0;
    while k < NNZ {
        let (r, c) = A.index_to_coord(k);
        assert!(r == A.rowval[k] && c == col_of(&A.colptr, k), "index_to_coord_is_the_coordinate_of_entry_k");
        occ[r][c] = true;
        k += 1;
    }
    let i: usize = kani::any();
    let j: usize = kani::any();
    kani::assume(i < M && j < N);
    match A.get_entry((i, j)) {
        Some(v) => assert!(occ[i][j] && v == d[i][j], "get_entry_returns_stored_value"),
        None => assert!(!occ[i][j], "get_entry_none_iff_not_structural"),
    }
    let mut lower = false;
    let mut r = 0;
    while r < M {
        let mut c = 0;
        while c < N {
            if occ[r][c] && r > c {
                lower = true;
            }
            c += 1;
        }
        r += 1;
    }
    assert!(A.is_triu() == !lower, "is_triu_iff_no_structural_entry_below_diagonal");
    if M == N {
        let mut nd = 0;
        let mut c = 0;
        while c < N {
            if occ[c][c] {
                nd += 1;
            }
            c += 1;
        }
        if !lower {
            assert!(ah::count_diagonal_entries(&A, true) == nd, "count_diagonal_triu");
        }
    }
    kani::cover!(lower, "entry below diagonal");
    kani::cover!(!lower && occ[0][N - 1], "upper triangular with corner entry");
}

#[kani::proof]
#[kani::unwind(7)]
pub fn c16_queries_3x3_nnz4() {
    queries_n::<3, 3, 4>();
}
#[kani::proof]
#[kani::unwind(7)]
pub fn c16_queries_2x3_nnz3() {
    queries_n::<2, 3, 3>();
}

// ------------------------------------------------------------------------------------------
// matrix-vector kernels over GF(13): gemv N/T, symv (unchecked), quad_form
// ------------------------------------------------------------------------------------------
fn any_csc_fp<const M: usize, const N: usize, const NNZ: usize>(triu: bool) -> CscMatrix<F> {
    let (colptr, rowval) = any_pattern::<M, N, NNZ>();
    if triu {
        let mut k = 0;
        while k < NNZ {
            kani::assume(rowval[k] <= col_of(&colptr, k));
            k += 1;
        }
    }
    let mut nzval = vec![F::zero(); NNZ];
    let mut k = 0;
    while k < NNZ {
        nzval[k] = F::any();
        k += 1;
    }
    CscMatrix { m: M, n: N, colptr, rowval, nzval }
}

fn dense_fp<const M: usize, const N: usize>(A: &CscMatrix<F>) -> [[F; N]; M] {
    let mut d = [[F::zero(); N]; M];
    let mut k = 0;
    while k < A.rowval.len() {
        let c = col_of(&A.colptr, k);
        d[A.rowval[k]][c] = d[A.rowval[k]][c] + A.nzval[k];
        k += 1;
    }
    d
}

fn any_vec_fp<const K: usize>() -> [F; K] {
    let mut v = [F::zero(); K];
    let mut i = 0;
    while i < K {
        v[i] = F::any();
        i += 1;
    }
    v
}

fn gemv_n<const M: usize, const N: usize, const NNZ: usize>() {
    let A = any_csc_fp::<M, N, NNZ>(false);
    let d = dense_fp::<M, N>(&A);
    let x = any_vec_fp::<N>();
    let xt = any_vec_fp::<M>();
    let y0 = any_vec_fp::<M>();
    let yt0 = any_vec_fp::<N>();
    let a = F::any();
    let b = F::any();
    let mut y = y0;
    ah::gemv_n(&A, &mut y, &x, a, b);
    let mut i = 0;
    while i < M {
        let mut acc = b * y0[i];
        let mut j = 0;
        while j < N {
            acc = acc + a * d[i][j] * x[j];
            j += 1;
        }
        assert!(y[i] == acc, "gemv_N_is_a_A_x_plus_b_y");
        i += 1;
    }
    let mut yt = yt0;
    ah::gemv_t(&A, &mut yt, &xt, a, b);
    let mut j = 0;
    while j < N {
        let mut acc = b * yt0[j];
        let mut i = 0;
        while i < M {
            acc = acc + a * d[i][j] * xt[i];
            i += 1;
        }
        assert!(yt[j] == acc, "gemv_T_is_a_At_x_plus_b_y");
        j += 1;
    }
    kani::cover!(a.0 == 1 && b.0 == 0, "a = 1, b = 0 special case");
    kani::cover!(a.0 == 12 && b.0 == 12, "a = -1, b = -1 special case");
    kani::cover!(a.0 == 5 && b.0 == 3, "general case");
}

#[kani::proof]
#[kani::unwind(6)]
pub fn c16_gemv_3x2_nnz3() {
    gemv_n::<3, 2, 3>();
}
#[kani::proof]
#[kani::unwind(7)]
pub fn c16_gemv_2x3_nnz4() {
    gemv_n::<2, 3, 4>();
}

fn symv_n<const N: usize, const NNZ: usize>() {
    let A = any_csc_fp::<N, N, NNZ>(true);
    let u = dense_fp::<N, N>(&A);
    // symmetric dense meaning of the triu storage
    let mut d = u;
    let mut i = 0;
    while i < N {
        let mut j = 0;
        while j < i {
            d[i][j] = u[j][i];
            j += 1;
        }
        i += 1;
    }
    let x = any_vec_fp::<N>();
    let w = any_vec_fp::<N>();
    let y0 = any_vec_fp::<N>();
    let a = F::any();
    let b = F::any();
    let mut y = y0;
    ah::symv(&A, &mut y, &x, a, b);
    let mut i = 0;
    while i < N {
        let mut acc = b * y0[i];
        let mut j = 0;
        while j < N {
            acc = acc + a * d[i][j] * x[j];
            j += 1;
        }
        assert!(y[i] == acc, "symv_is_a_sym(A)_x_plus_b_y");
        i += 1;
    }
    // quad_form(w, x) = w' sym(A) x
    let qf = A.quad_form(&w, &x);
    let mut acc = F::zero();
    let mut i = 0;
    while i < N {
        let mut j = 0;
        while j < N {
            acc = acc + w[i] * d[i][j] * x[j];
            j += 1;
        }
        i += 1;
    }
    assert!(qf == acc, "quad_form_is_y_sym(A)_x");
    kani::cover!(A.rowval[1] == 0 && col_of(&A.colptr, 1) == N - 1, "off-diagonal corner entry");
}

#[kani::proof]
#[kani::unwind(6)]
pub fn c16_symv_2x2_nnz3() {
    symv_n::<2, 3>();
}
#[kani::proof]
#[kani::unwind(7)]
pub fn c16_symv_3x3_nnz4() {
    symv_n::<3, 4>();
}

// ------------------------------------------------------------------------------------------
// scalings and sums over GF(13)
// ------------------------------------------------------------------------------------------
fn scalings_n<const M: usize, const N: usize, const NNZ: usize>() {
    let A0 = any_csc_fp::<M, N, NNZ>(false);
    let d0 = dense_fp::<M, N>(&A0);
    let l = any_vec_fp::<M>();
    let r = any_vec_fp::<N>();
    let c = F::any();
    let which: u8 = kani::any();
    kani::assume(which < 5);
    let mut A = A0.clone();
    match which {
        0 => A.lscale(&l),
        1 => A.rscale(&r),
        2 => A.lrscale(&l, &r),
        3 => A.scale(c),
        _ => A.negate(),
    }
    assert!(same_pattern(&A, &A0), "scaling_keeps_the_pattern");
    let d = dense_fp::<M, N>(&A);
    let mut i = 0;
    while i < M {
        let mut j = 0;
        while j < N {
            let want = match which {
                0 => l[i] * d0[i][j],
                1 => d0[i][j] * r[j],
                2 => l[i] * d0[i][j] * r[j],
                3 => c * d0[i][j],
                _ => -d0[i][j],
            };
            assert!(d[i][j] == want, "scaling_matches_dense_definition");
            j += 1;
        }
        i += 1;
    }
    // sums
    let mut cs = [F::zero(); N];
    let mut rs = [F::zero(); M];
    A0.col_sums(&mut cs);
    A0.row_sums(&mut rs);
    let mut j = 0;
    while j < N {
        let mut acc = F::zero();
        let mut i = 0;
        while i < M {
            acc = acc + d0[i][j];
            i += 1;
        }
        assert!(cs[j] == acc, "col_sums");
        j += 1;
    }
    let mut i = 0;
    while i < M {
        let mut acc = F::zero();
        let mut j = 0;
        while j < N {
            acc = acc + d0[i][j];
            j += 1;
        }
        assert!(rs[i] == acc, "row_sums");
        i += 1;
    }
    kani::cover!(which == 2 && l[0].0 == 2 && r[N - 1].0 == 3, "lrscale");
    kani::cover!(which == 0, "lscale");
}

#[kani::proof]
#[kani::unwind(8)]
pub fn c16_scalings_3x2_nnz3() {
    scalings_n::<3, 2, 3>();
}
#[kani::proof]
#[kani::unwind(8)]
pub fn c16_scalings_2x3_nnz4() {
    scalings_n::<2, 3, 4>();
}

// ------------------------------------------------------------------------------------------
// norms (order based): f64, finite values
// ------------------------------------------------------------------------------------------
fn norms_n<const M: usize, const N: usize, const NNZ: usize>() {
    let (colptr, rowval) = any_pattern::<M, N, NNZ>();
    let vals: [f64; NNZ] = kani::any();
    let mut k = 0;
    while k < NNZ {
        kani::assume(!vals[k].is_nan());
        k += 1;
    }
    let A = CscMatrix::<f64> { m: M, n: N, colptr, rowval, nzval: vals.to_vec() };
    let mut cn = [7.0f64; N];
    let mut rn = [7.0f64; M];
    A.col_norms(&mut cn);
    A.row_norms(&mut rn);
    let mut cref = [0.0f64; N];
    let mut rref = [0.0f64; M];
    let mut k = 0;
    while k < NNZ {
        let c = col_of(&A.colptr, k);
        let r = A.rowval[k];
        let v = A.nzval[k].abs();
        if v > cref[c] {
            cref[c] = v;
        }
        if v > rref[r] {
            rref[r] = v;
        }
        k += 1;
    }
    let mut j = 0;
    while j < N {
        assert!(cn[j] == cref[j], "col_norms_is_max_abs_per_column");
        j += 1;
    }
    let mut i = 0;
    while i < M {
        assert!(rn[i] == rref[i], "row_norms_is_max_abs_per_row");
        i += 1;
    }
    // no_reset variant accumulates on top of the given vector
    let init: [f64; N] = kani::any();
    let mut acc = init;
    let mut j = 0;
    while j < N {
        kani::assume(!init[j].is_nan() && init[j] >= 0.0); // accumulates on top of existing (nonnegative) norms
        j += 1;
    }
    A.col_norms_no_reset(&mut acc);
    let mut j = 0;
    while j < N {
        let want = if cref[j] > init[j] { cref[j] } else { init[j] };
        assert!(acc[j] == want, "col_norms_no_reset_accumulates");
        j += 1;
    }
    if M == N {
        // symmetric column norms of a triu matrix
        let mut triu = true;
        let mut k = 0;
        while k < NNZ {
            if A.rowval[k] > col_of(&A.colptr, k) {
                triu = false;
            }
            k += 1;
        }
        if triu {
            let mut sn = [7.0f64; N];
            A.col_norms_sym(&mut sn);
            let mut sref = [0.0f64; N];
            let mut k = 0;
            while k < NNZ {
                let c = col_of(&A.colptr, k);
                let r = A.rowval[k];
                let v = A.nzval[k].abs();
                if v > sref[c] {
                    sref[c] = v;
                }
                if v > sref[r] {
                    sref[r] = v;
                }
                k += 1;
            }
            let mut j = 0;
            while j < N {
                assert!(sn[j] == sref[j], "col_norms_sym_is_max_abs_of_symmetric_column");
                j += 1;
            }
        }
    }
    kani::cover!(cn[0] == 3.0 && rn[M - 1] == 2.0, "nontrivial norms");
}

#[kani::proof]
#[kani::unwind(7)]
pub fn c16_norms_3x3_nnz4() {
    norms_n::<3, 3, 4>();
}
#[kani::proof]
#[kani::unwind(7)]
pub fn c16_norms_2x3_nnz3() {
    norms_n::<2, 3, 3>();
}

// ------------------------------------------------------------------------------------------
// transpose (allocation size = nnz, concrete): symbolic pattern
// ------------------------------------------------------------------------------------------
fn transpose_n<const M: usize, const N: usize, const NNZ: usize>() {
    let A = any_csc_i32::<M, N, NNZ>();
    let d = dense_i32::<M, N>(&A);
    let B: CscMatrix<i32> = A.t().into();
    assert!(B.m == N && B.n == M, "transpose_dimensions");
    assert!(is_canonical(&B), "transpose_is_canonical");
    let dt = dense_i32::<N, M>(&B);
    let mut i = 0;
    while i < M {
        let mut j = 0;
        while j < N {
            assert!(dt[j][i] == d[i][j], "transpose_entries");
            j += 1;
        }
        i += 1;
    }
    kani::cover!(A.rowval[0] == M - 1, "entry in the last row");
}

#[kani::proof]
#[kani::unwind(7)]
pub fn c16_transpose_3x2_nnz3() {
    transpose_n::<3, 2, 3>();
}
#[kani::proof]
#[kani::unwind(7)]
pub fn c16_transpose_2x3_nnz4() {
    transpose_n::<2, 3, 4>();
}

// ------------------------------------------------------------------------------------------
// dropzeros (in place, shrinks): symbolic pattern and values
// ------------------------------------------------------------------------------------------
fn dropzeros_n<const M: usize, const N: usize, const NNZ: usize>() {
    let mut A = any_csc_i32::<M, N, NNZ>();
    let d = dense_i32::<M, N>(&A);
    A.dropzeros();
    assert!(is_canonical(&A), "dropzeros_result_is_canonical");
    let mut k = 0;
    while k < A.nzval.len() {
        assert!(A.nzval[k] != 0, "no_stored_zero_left");
        k += 1;
    }
    let d2 = dense_i32::<M, N>(&A);
    let mut i = 0;
    while i < M {
        let mut j = 0;
        while j < N {
            assert!(d2[i][j] == d[i][j], "dropzeros_keeps_dense_meaning");
            j += 1;
        }
        i += 1;
    }
    kani::cover!(A.nzval.len() == NNZ - 2, "two zeros dropped");
    kani::cover!(A.nzval.len() == NNZ, "nothing dropped");
}

#[kani::proof]
#[kani::unwind(7)]
pub fn c16_dropzeros_3x2_nnz4() {
    dropzeros_n::<3, 2, 4>();
}

// ------------------------------------------------------------------------------------------
// operations with data-dependent allocation: enumerated patterns, symbolic values
// ------------------------------------------------------------------------------------------
/// pattern of an M x N matrix from a bit mask over entries in column-major order (concrete)
fn mask_pattern<const M: usize, const N: usize>(mask: u32) -> (Vec<usize>, Vec<usize>) {
    let mut colptr = vec![0usize; N + 1];
    let mut rowval = Vec::new();
    let mut bit = 0;
    let mut j = 0;
    while j < N {
        let mut i = 0;
        while i < M {
            if (mask >> bit) & 1 == 1 {
                rowval.push(i);
            }
            bit += 1;
            i += 1;
        }
        colptr[j + 1] = rowval.len();
        j += 1;
    }
    (colptr, rowval)
}

fn csc_from_mask<const M: usize, const N: usize>(mask: u32) -> CscMatrix<i32> {
    let (colptr, rowval) = mask_pattern::<M, N>(mask);
    let nnz = rowval.len();
    let mut nzval = vec![0i32; nnz];
    let mut k = 0;
    while k < nnz {
        nzval[k] = small_i32(4);
        k += 1;
    }
    CscMatrix { m: M, n: N, colptr, rowval, nzval }
}

/// to_triu over *all* 2^(N*N) patterns of an N x N matrix (concrete loop), symbolic values
fn to_triu_all<const N: usize>(from: u32, to: u32) {
    let mut mask = from;
    while mask < to {
        let A = csc_from_mask::<N, N>(mask);
        let d = dense_i32::<N, N>(&A);
        let B = A.to_triu();
        assert!(is_canonical(&B) && B.m == N && B.n == N, "to_triu_canonical");
        assert!(B.is_triu(), "to_triu_is_triu");
        let db = dense_i32::<N, N>(&B);
        let mut stored_upper = 0;
        let mut k = 0;
        while k < A.rowval.len() {
            if A.rowval[k] <= col_of(&A.colptr, k) {
                stored_upper += 1;
            }
            k += 1;
        }
        assert!(B.nnz() == stored_upper, "to_triu_keeps_exactly_the_upper_entries");
        let mut i = 0;
        while i < N {
            let mut j = 0;
            while j < N {
                if i <= j {
                    assert!(db[i][j] == d[i][j], "to_triu_upper_entries");
                } else {
                    assert!(db[i][j] == 0, "to_triu_lower_entries_removed");
                }
                j += 1;
            }
            i += 1;
        }
        // a triu input is returned unchanged (this is how DefaultProblemData::new treats P)
        if A.is_triu() {
            assert!(csc_eq(&B, &A), "to_triu_of_triu_is_identity");
        }
        mask += 1;
    }
    kani::cover!(true, "all patterns visited");
}

#[kani::proof]
#[kani::unwind(20)]
pub fn c16_to_triu_2x2_all() {
    to_triu_all::<2>(0, 16);
}

#[kani::proof]
#[kani::unwind(12)]
pub fn c16_to_triu_3x3_some() {
    // dense, lower-only, arrow, diagonal-free ... 6 representative 3x3 patterns
    for m in [511u32, 0b000_100_110, 0b111_010_001, 0b110_101_011, 0b100_010_001, 0] {
        to_triu_all::<3>(m, m + 1);
    }
}

/// findnz (extends a Vec column by column: data-dependent growth) on enumerated patterns
#[kani::proof]
#[kani::unwind(10)]
pub fn c16_findnz_3x2() {
    for pm in [0b101_011u32, 0b000_111, 0b110_000, 0] {
        let A = csc_from_mask::<3, 2>(pm);
        let (I, J, V) = ah::findnz(&A);
        assert!(I.len() == A.nnz() && J.len() == A.nnz() && V.len() == A.nnz(), "findnz_lengths");
        let mut k = 0;
        while k < A.nnz() {
            assert!(I[k] == A.rowval[k] && J[k] == col_of(&A.colptr, k) && V[k] == A.nzval[k], "findnz_lists_triplets");
            k += 1;
        }
    }
    kani::cover!(true);
}

/// select_rows: all row masks x one concrete pattern, symbolic values
fn select_rows_all<const M: usize, const N: usize>(pmask: u32) {
    let A = csc_from_mask::<M, N>(pmask);
    let d = dense_i32::<M, N>(&A);
    let mut code = 0u32;
    while code < (1 << M) {
        let mut keep = vec![false; M];
        let mut i = 0;
        while i < M {
            keep[i] = (code >> i) & 1 == 1;
            i += 1;
        }
        let B = A.select_rows(&keep);
        assert!(is_canonical(&B) && B.n == N, "select_rows_canonical");
        let db = dense_i32::<M, N>(&B);
        let mut r = 0;
        let mut i = 0;
        while i < M {
            if keep[i] {
                let mut j = 0;
                while j < N {
                    assert!(db[r][j] == d[i][j], "select_rows_keeps_rows_in_order");
                    j += 1;
                }
                r += 1;
            }
            i += 1;
        }
        assert!(B.m == r, "select_rows_row_count");
        code += 1;
    }
    kani::cover!(A.nzval[0] == 2, "values symbolic");
}

#[kani::proof]
#[kani::unwind(18)]
pub fn c16_select_rows_4x2() {
    select_rows_all::<4, 2>(0b1011_0110);
}
#[kani::proof]
#[kani::unwind(10)]
pub fn c16_select_rows_3x3() {
    select_rows_all::<3, 3>(0b110_011_101);
}

/// new_from_triplets: symbolic coordinates and values (unsorted, duplicates allowed)
fn triplets_n<const M: usize, const N: usize, const K: usize>() {
    let I: [usize; K] = kani::any();
    let J: [usize; K] = kani::any();
    let mut V = [0i32; K];
    let mut d = [[0i32; N]; M];
    let mut k = 0;
    while k < K {
        kani::assume(I[k] < M && J[k] < N);
        V[k] = small_i32(4);
        d[I[k]][J[k]] += V[k];
        k += 1;
    }
    let A = CscMatrix::new_from_triplets(M, N, I.to_vec(), J.to_vec(), V.to_vec());
    assert!(is_canonical(&A) && A.m == M && A.n == N, "triplets_result_is_canonical");
    let da = dense_i32::<M, N>(&A);
    let mut distinct = 0;
    let mut i = 0;
    while i < M {
        let mut j = 0;
        while j < N {
            assert!(da[i][j] == d[i][j], "triplets_dense_meaning_is_sum_of_triplets");
            let mut hit = false;
            let mut k = 0;
            while k < K {
                if I[k] == i && J[k] == j {
                    hit = true;
                }
                k += 1;
            }
            if hit {
                distinct += 1;
            }
            j += 1;
        }
        i += 1;
    }
    assert!(A.nnz() == distinct, "one_stored_entry_per_distinct_coordinate");
    kani::cover!(distinct == K, "all coordinates distinct");
    kani::cover!(distinct == 1, "all triplets on one coordinate");
    kani::cover!(K >= 2 && J[0] > J[1], "unsorted input");
}

#[kani::proof]
#[kani::unwind(7)]
pub fn c16_triplets_2x2_k3() {
    triplets_n::<2, 2, 3>();
}
#[kani::proof]
#[kani::unwind(8)]
pub fn c16_triplets_3x2_k4() {
    triplets_n::<3, 2, 4>();
}

/// canonicalize: concrete colptr, symbolic (unsorted, possibly duplicated) row indices and values
fn canonicalize_n(colptr: [usize; 3]) {
    const M: usize = 3;
    const N: usize = 2;
    let nnz = colptr[2];
    let mut rowval = vec![0usize; nnz];
    let mut nzval = vec![0i32; nnz];
    let mut k = 0;
    while k < nnz {
        let r: usize = kani::any();
        kani::assume(r < M);
        rowval[k] = r;
        nzval[k] = small_i32(4);
        k += 1;
    }
    let mut A = CscMatrix::<i32> { m: M, n: N, colptr: colptr.to_vec(), rowval, nzval };
    let d = dense_i32::<M, N>(&A);
    assert!(A.canonicalize().is_ok());
    assert!(is_canonical(&A), "canonicalize_result_is_canonical");
    let d2 = dense_i32::<M, N>(&A);
    let mut i = 0;
    while i < M {
        let mut j = 0;
        while j < N {
            assert!(d2[i][j] == d[i][j], "canonicalize_keeps_dense_meaning");
            j += 1;
        }
        i += 1;
    }
    let B = A.clone();
    assert!(A.canonicalize().is_ok());
    assert!(csc_eq(&A, &B), "canonicalize_is_idempotent");
    kani::cover!(A.nnz() < nnz, "duplicates merged");
    kani::cover!(A.nnz() == nnz, "no duplicates");
}

#[kani::proof]
#[kani::unwind(8)]
pub fn c16_canonicalize_20() {
    canonicalize_n([0, 2, 2]);
}
#[kani::proof]
#[kani::unwind(8)]
pub fn c16_canonicalize_22() {
    canonicalize_n([0, 2, 4]);
}
#[kani::proof]
#[kani::unwind(8)]
pub fn c16_canonicalize_30() {
    canonicalize_n([0, 3, 3]);
}

/// From<rows>: dense rows -> canonical matrix without stored zeros.  All 16 zero/nonzero shapes of a
/// 2x2 array are enumerated (the result is allocated with capacity = number of nonzeros), values symbolic.
#[kani::proof]
#[kani::unwind(18)]
pub fn c16_from_rows_2x2() {
    let v: i32 = kani::any();
    let w: i32 = kani::any();
    kani::assume(v != 0 && w != 0 && v >= -4 && v <= 4 && w >= -4 && w <= 4);
    let mut mask = 0u32;
    while mask < 16 {
        let rows = [
            [if mask & 1 != 0 { v } else { 0 }, if mask & 2 != 0 { w } else { 0 }],
            [if mask & 4 != 0 { w } else { 0 }, if mask & 8 != 0 { v } else { 0 }],
        ];
        let A: CscMatrix<i32> = CscMatrix::from(&rows);
        assert!(is_canonical(&A) && A.m == 2 && A.n == 2, "from_rows_canonical");
        assert!(A.nnz() == mask.count_ones() as usize, "from_rows_stores_exactly_the_nonzeros");
        let d = dense_i32::<2, 2>(&A);
        let mut i = 0;
        while i < 2 {
            let mut j = 0;
            while j < 2 {
                assert!(d[i][j] == rows[i][j], "from_rows_dense_meaning");
                j += 1;
            }
            i += 1;
        }
        mask += 1;
    }
    kani::cover!(v == 3 && w == -2);
}

/// set_entry on enumerated patterns: overwrite, insert (also into empty / last column), zero no-op
fn set_entry_all<const M: usize, const N: usize>(pmask: u32) {
    let A0 = csc_from_mask::<M, N>(pmask);
    let d0 = dense_i32::<M, N>(&A0);
    let v: i32 = kani::any();
    kani::assume(v != 0 && v >= -4 && v <= 4);
    let mut i = 0;
    while i < M {
        let mut j = 0;
        while j < N {
            // nonzero value: stored afterwards
            let mut A = A0.clone();
            A.set_entry((i, j), v);
            assert!(is_canonical(&A), "set_entry_keeps_canonical_form");
            assert!(A.get_entry((i, j)) == Some(v), "set_entry_then_get_entry");
            let d = dense_i32::<M, N>(&A);
            let mut r = 0;
            while r < M {
                let mut c = 0;
                while c < N {
                    if r == i && c == j {
                        assert!(d[r][c] == v);
                    } else {
                        assert!(d[r][c] == d0[r][c], "set_entry_touches_only_its_coordinate");
                    }
                    c += 1;
                }
                r += 1;
            }
            // zero value: never allocates a new entry
            let mut Z = A0.clone();
            Z.set_entry((i, j), 0);
            assert!(is_canonical(&Z), "set_entry_zero_keeps_canonical_form");
            if A0.get_entry((i, j)).is_none() {
                assert!(csc_eq(&Z, &A0), "setting_a_structural_zero_to_zero_is_a_noop");
            } else {
                assert!(Z.get_entry((i, j)) == Some(0) && Z.nnz() == A0.nnz(), "existing_entry_overwritten_with_zero");
            }
            j += 1;
        }
        i += 1;
    }
    kani::cover!(v == 3, "value symbolic");
}

#[kani::proof]
#[kani::unwind(10)]
pub fn c16_set_entry_2x3() {
    set_entry_all::<2, 3>(0b00_10_01);
}
#[kani::proof]
#[kani::unwind(10)]
pub fn c16_set_entry_3x2_emptycol() {
    set_entry_all::<3, 2>(0b000_101);
}

// ------------------------------------------------------------------------------------------
// block concatenation over GF(13) (the trait is implemented for FloatT scalars): symbolic patterns
// ------------------------------------------------------------------------------------------
#[kani::proof]
#[kani::unwind(8)]
pub fn c16_concat_2x2() {
    let A = any_csc_fp::<2, 2, 2>(false);
    let B = any_csc_fp::<2, 2, 3>(false);
    let da = dense_fp::<2, 2>(&A);
    let db = dense_fp::<2, 2>(&B);
    let H = CscMatrix::hcat(&A, &B).unwrap();
    assert!(H.m == 2 && H.n == 4 && is_canonical(&H), "hcat_shape_canonical");
    let dh = dense_fp::<2, 4>(&H);
    let V = CscMatrix::vcat(&A, &B).unwrap();
    assert!(V.m == 4 && V.n == 2 && is_canonical(&V), "vcat_shape_canonical");
    let dv = dense_fp::<4, 2>(&V);
    let D = CscMatrix::blockdiag(&[&A, &B]).unwrap();
    assert!(D.m == 4 && D.n == 4 && is_canonical(&D), "blockdiag_shape_canonical");
    let dd = dense_fp::<4, 4>(&D);
    let mut i = 0;
    while i < 2 {
        let mut j = 0;
        while j < 2 {
            assert!(dh[i][j] == da[i][j] && dh[i][j + 2] == db[i][j], "hcat_block_layout");
            assert!(dv[i][j] == da[i][j] && dv[i + 2][j] == db[i][j], "vcat_block_layout");
            assert!(dd[i][j] == da[i][j] && dd[i + 2][j + 2] == db[i][j], "blockdiag_diagonal_blocks");
            assert!(dd[i][j + 2].0 == 0 && dd[i + 2][j].0 == 0, "blockdiag_off_blocks_zero");
            j += 1;
        }
        i += 1;
    }
    kani::cover!(A.rowval[0] == 1 && B.rowval[2] == 1, "nontrivial patterns");
}

/// non-square blocks: row and column offsets of blockdiag / hcat / vcat must advance independently
#[kani::proof]
#[kani::unwind(8)]
pub fn c16_concat_nonsquare() {
    let A = any_csc_fp::<3, 1, 2>(false); // tall
    let B = any_csc_fp::<1, 2, 2>(false); // wide
    let C = any_csc_fp::<2, 1, 1>(false);
    let da = dense_fp::<3, 1>(&A);
    let db = dense_fp::<1, 2>(&B);
    let dc = dense_fp::<2, 1>(&C);
    let D = CscMatrix::blockdiag(&[&A, &B, &C]).unwrap();
    assert!(D.m == 6 && D.n == 4 && is_canonical(&D), "blockdiag_shape_canonical");
    let dd = dense_fp::<6, 4>(&D);
    let mut i = 0;
    while i < 6 {
        let mut j = 0;
        while j < 4 {
            let want = if i < 3 && j < 1 {
                da[i][j]
            } else if i >= 3 && i < 4 && j >= 1 && j < 3 {
                db[i - 3][j - 1]
            } else if i >= 4 && j >= 3 {
                dc[i - 4][j - 3]
            } else {
                F::zero()
            };
            assert!(dd[i][j] == want, "blockdiag_places_each_block_at_its_row_and_column_offset");
            j += 1;
        }
        i += 1;
    }
    // vcat of a tall and a short block with the same number of columns
    let V = CscMatrix::vcat(&A, &C).unwrap();
    assert!(V.m == 5 && V.n == 1 && is_canonical(&V), "vcat_shape_canonical");
    let dv = dense_fp::<5, 1>(&V);
    let mut i = 0;
    while i < 5 {
        assert!(dv[i][0] == if i < 3 { da[i][0] } else { dc[i - 3][0] }, "vcat_block_layout");
        i += 1;
    }
    kani::cover!(A.rowval[0] == 1 && B.rowval[1] == 0 && C.rowval[0] == 1, "nontrivial patterns");
}

#[kani::proof]
#[kani::unwind(8)]
pub fn c16_concat_dim_errors() {
    let A = any_csc_fp::<2, 2, 2>(false);
    let B = any_csc_fp::<3, 2, 2>(false);
    let C = any_csc_fp::<2, 3, 2>(false);
    assert!(CscMatrix::hcat(&A, &B).is_err(), "hcat_rejects_row_mismatch");
    assert!(CscMatrix::vcat(&A, &C).is_err(), "vcat_rejects_column_mismatch");
    assert!(CscMatrix::hcat(&A, &C).is_ok() && CscMatrix::vcat(&A, &B).is_ok(), "compatible_shapes_accepted");
    let e: [&CscMatrix<F>; 0] = [];
    assert!(CscMatrix::blockdiag(&e).is_err(), "blockdiag_rejects_empty_list");
    kani::cover!(true);
}
