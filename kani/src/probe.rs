use crate::gen::*;
use clarabel::solver::*;
use clarabel::verif_hooks as vh;

fn sym_body<const N: usize>() {
    let mut cones: [SupportedConeT<f64>; N] = core::array::from_fn(|_| SupportedConeT::ZeroConeT(0));
    let mut i = 0;
    while i < N {
        cones[i] = any_cone(2);
        i += 1;
    }
    let out = vh::new_collapsed(&cones);
    let mut i = 0;
    while i < out.len() {
        assert!(vh::cone_nvars(&out[i]) > 0, "no_empty_cone_in_the_output");
        if i > 0 {
            assert!(!(is_nn(&out[i - 1]) && is_nn(&out[i])), "adjacent_nonnegative_cones_are_merged");
        }
        i += 1;
    }
    kani::cover!(out.len() == N);
    kani::cover!(out.len() == 0);
}

#[kani::proof]
#[kani::unwind(6)]
pub fn p_collapse_sym2() {
    sym_body::<2>();
}

#[kani::proof]
#[kani::unwind(6)]
pub fn p_collapse_sym3() {
    sym_body::<3>();
}
