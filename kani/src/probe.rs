use crate::gen::*;
use clarabel::algebra::*;

#[kani::proof]
#[kani::unwind(8)]
pub fn p_select_conc() {
    let b = [1.0f64, 2.0, 3.0, 4.0];
    let x: f64 = kani::any();
    let mut bb = b;
    bb[0] = x;
    let m = vec![true, false, true, true];
    let r = bb.select(&m);
    assert!(r.len() == 3);
    kani::cover!(r[0] == 5.0);
}
