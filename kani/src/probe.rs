use crate::gen::*;
use clarabel::algebra::*;
use clarabel::solver::SupportedConeT;
use clarabel::verif_hooks::cones::*;

pub fn stub_random_state() -> std::collections::hash_map::RandomState {
    unsafe { std::mem::transmute::<[u64; 2], std::collections::hash_map::RandomState>([1, 2]) }
}

#[kani::proof]
#[kani::unwind(20)]
#[kani::stub(std::collections::hash_map::RandomState::new, stub_random_state)]
pub fn p_composite_stack() {
    crate::stack_composite!(cones, [SupportedConeT::<f64>::ZeroConeT(1), SupportedConeT::<f64>::NonnegativeConeT(2)]);
    let mut n = 0;
    for c in cones.iter() {
        let mut i = 0;
        while i < c.numel() {
            n += 1;
            i += 1;
        }
        assert!(c.Hs_is_diagonal());
    }
    assert!(n == 3 && cones.numel() == 3);
}
