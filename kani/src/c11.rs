//! C11 — the assembled KKT matrix is the intended matrix for every cone layout.
//!
//! c11_maps_*: the real `assemble_kkt_matrix` (LDLDataMap::new, colcount_*/fill_* utilities, sparse
//! cone expansion fill) on enumerated P patterns and cone layouts, symbolic A pattern, symbolic
//! values, both triangles.  Oracle: position and value of every entry via the recorded maps.
use crate::fp::*;
use crate::gen::*;
use clarabel::algebra::verif_hooks::{MatrixShape, MatrixTriangle};
use clarabel::algebra::*;
use clarabel::solver::SupportedConeT;
use clarabel::verif_hooks::cones::verif_hooks_cc as cc;
use clarabel::verif_hooks::cones::*;
use clarabel::verif_hooks::core::direct::verif_hooks_kkt as kk;

pub fn stub_random_state() -> std::collections::hash_map::RandomState {
    unsafe { std::mem::transmute::<[u64; 2], std::collections::hash_map::RandomState>([1, 2]) }
}

const N: usize = 2;

/// concrete upper-triangular patterns of the 2x2 matrix P (missing diagonals and empty P included)
fn p_pattern(pid: u8) -> (Vec<usize>, Vec<usize>) {
    match pid {
        0 => (vec![0, 0, 0], vec![]),            // empty P (LP)
        1 => (vec![0, 1, 2], vec![0, 1]),        // diagonal
        2 => (vec![0, 1, 2], vec![0, 0]),        // (0,0),(0,1): diagonal (1,1) missing
        3 => (vec![0, 1, 3], vec![0, 0, 1]),     // full upper triangle
        4 => (vec![0, 0, 1], vec![0]),           // only (0,1): both diagonals missing
        _ => (vec![0, 0, 1], vec![1]),           // only (1,1)
    }
}

/// position (row, col) of stored entry t of K
fn coord(K: &CscMatrix<f64>, t: usize) -> (usize, usize) {
    (K.rowval[t], col_of(&K.colptr, t))
}

/// A: M x 2 with a concrete pattern given by a bit mask over entries in column-major order
fn a_pattern<const M: usize>(mask: u32) -> (Vec<usize>, Vec<usize>) {
    let mut colptr = vec![0usize; N + 1];
    let mut rowval = Vec::new();
    let mut bit = 0;
    let mut j = 0;
    while j < N {
        let mut i = 0;
        while i < M {
            if (mask >> bit) & 1 == 1 {
                rowval.push(i);
            }
            bit += 1;
            i += 1;
        }
        colptr[j + 1] = rowval.len();
        j += 1;
    }
    (colptr, rowval)
}

/// the whole structure (P pattern, A pattern, cone layout, triangle) is concrete: the KKT assembly
/// allocates K with a size computed from the patterns, and with a symbolic A pattern the position
/// checks did not finish in 25-30 min; all numeric VALUES are symbolic.  Several A patterns per harness.
fn maps_check<const M: usize, const NNZA: usize>(cones: &CompositeCone<f64>, pid: u8, triu: bool) {
    maps_check_s::<M, NNZA, 0>(cones, pid, triu, []);
}

/// S = number of sparse-expanded second-order cones in the layout, `sdims` their dimensions.  For S > 0 the
/// list of expansion maps is held in a stack store (hook `assemble_kkt_matrix_soc_store`): inside
/// `LDLDataMap` it is a heap Vec of enums, which CBMC does not constant-propagate (DESIGN 6.2.9) - with the
/// plain hook these layouts did not finish in 50 min.
fn maps_check_s<const M: usize, const NNZA: usize, const S: usize>(cones: &CompositeCone<f64>, pid: u8, triu: bool, sdims: [usize; S]) {
    let full: u32 = (1u32 << (2 * M)) - 1;
    if NNZA == 0 {
        // one A pattern (first and last row of column 0, last row of column 1)
        maps_check_one::<M, S>(cones, pid, triu, 1u32 | (1u32 << (M - 1)) | (1u32 << (2 * M - 1)), sdims);
    } else {
        // A patterns: dense; last row only; empty first column; scattered
        let masks = [full, (1u32 << (M - 1)) | (1u32 << (2 * M - 1)), full & !((1u32 << M) - 1), 0b1001_0110_1001 & full];
        for &mask in masks.iter() {
            maps_check_one::<M, S>(cones, pid, triu, mask, sdims);
        }
    }
    kani::cover!(true, "all A patterns visited");
}

/// the recorded index maps, whichever hook produced them
struct MapView<'a, const S: usize> {
    P: &'a [usize],
    A: &'a [usize],
    Hsblocks: &'a [usize],
    diagP: &'a [usize],
    diag_full: &'a [usize],
    soc: [(&'a [usize], &'a [usize], [usize; 2]); S],
}

fn maps_check_one<const M: usize, const S: usize>(cones: &CompositeCone<f64>, pid: u8, triu: bool, amask: u32, sdims: [usize; S]) {
    let (pc, pr) = p_pattern(pid);
    let nnzp = pr.len();
    let mut pv = vec![0f64; nnzp];
    let mut k = 0;
    while k < nnzp {
        pv[k] = small_f64(9);
        k += 1;
    }
    let P = CscMatrix::<f64> { m: N, n: N, colptr: pc, rowval: pr, nzval: pv };
    let (ac, ar) = a_pattern::<M>(amask);
    let NNZA = ar.len();
    let mut av = vec![0f64; NNZA];
    let mut k = 0;
    while k < NNZA {
        av[k] = small_f64(9);
        k += 1;
    }
    let A = CscMatrix::<f64> { m: M, n: N, colptr: ac, rowval: ar, nzval: av };
    assert!(cones.numel() == M);
    let mut store = kk::VSocMapStore::<S>::new(sdims);
    let plain;
    let handle;
    let (K, map): (CscMatrix<f64>, MapView<S>) = if S == 0 {
        let (K, m) = kk::assemble_kkt_matrix(&P, &A, cones, triu);
        plain = m;
        assert!(plain.sparse_maps.len() == 0);
        (K, MapView { P: &plain.P, A: &plain.A, Hsblocks: &plain.Hsblocks, diagP: &plain.diagP, diag_full: &plain.diag_full, soc: [(&[], &[], [0; 2]); S] })
    } else {
        let (K, h) = kk::assemble_kkt_matrix_soc_store(&P, &A, cones, triu, &mut store);
        handle = h;
        assert!(handle.n_sparse() == S);
        let mut soc: [(&[usize], &[usize], [usize; 2]); S] = [(&[], &[], [0; 2]); S];
        let mut i = 0;
        while i < S {
            soc[i] = handle.soc(i);
            i += 1;
        }
        (K, MapView { P: handle.P(), A: handle.A(), Hsblocks: handle.Hsblocks(), diagP: handle.diagP(), diag_full: handle.diag_full(), soc })
    };
    // sparse expansion dimension
    let p = 2 * S;
    let dim = N + M + p;
    assert!(K.m == dim && K.n == dim, "K_dimension_is_n_plus_m_plus_p");
    assert!(is_canonical(&K), "K_is_canonical");
    let nnzk = K.nzval.len();
    // every stored entry lies in the requested triangle
    let mut t = 0;
    while t < nnzk {
        let (r, c) = coord(&K, t);
        assert!(if triu { r <= c } else { r >= c }, "K_entries_in_requested_triangle");
        t += 1;
    }
    // bookkeeping: every index set is disjoint from the others
    let mut used = vec![false; nnzk];
    // ---- P block
    let mut k = 0;
    while k < nnzp {
        let t = map.P[k];
        assert!(t < nnzk && !used[t], "map_P_disjoint_in_range");
        used[t] = true;
        let (r, c) = (P.rowval[k], col_of(&P.colptr, k));
        let want = if triu { (r, c) } else { (c, r) };
        assert!(coord(&K, t) == want, "P_entry_in_recorded_position");
        assert!(K.nzval[t] == P.nzval[k], "P_entry_value");
        k += 1;
    }
    // ---- A block
    let mut k = 0;
    while k < NNZA {
        let t = map.A[k];
        assert!(t < nnzk && !used[t], "map_A_disjoint_in_range");
        used[t] = true;
        let (r, c) = (A.rowval[k], col_of(&A.colptr, k));
        let want = if triu { (c, N + r) } else { (N + r, c) };
        assert!(coord(&K, t) == want, "A_entry_in_recorded_position");
        assert!(K.nzval[t] == A.nzval[k], "A_entry_value");
        k += 1;
    }
    // ---- complete diagonal
    assert!(map.diag_full.len() == dim && map.diagP.len() == N, "diagonal_index_lengths");
    let mut i = 0;
    while i < dim {
        let t = map.diag_full[i];
        assert!(t < nnzk && coord(&K, t) == (i, i), "diag_full_points_at_the_diagonal");
        if i < N {
            assert!(map.diagP[i] == t, "diagP_is_the_leading_part_of_diag_full");
            // a diagonal entry not coming from P is a structural zero
            if !used[t] {
                assert!(K.nzval[t] == 0.0, "missing_P_diagonal_filled_with_structural_zero");
                used[t] = true;
            }
        }
        i += 1;
    }
    // ---- Hs blocks, cone by cone
    let rc = cc::rng_cones(cones);
    let rb = cc::rng_blocks(cones);
    let mut ci = 0;
    let mut si = 0;
    let mut pcol = N + M;
    for cone in cones.iter() {
        let start = N + rc[ci].start;
        let d = cone.numel();
        let blk = &map.Hsblocks[rb[ci].clone()];
        if cone.Hs_is_diagonal() {
            assert!(blk.len() == d, "diagonal_block_length");
            let mut j = 0;
            while j < d {
                let t = blk[j];
                assert!(t < nnzk && !used[t], "Hs_diag_disjoint");
                used[t] = true;
                assert!(coord(&K, t) == (start + j, start + j), "Hs_diagonal_entry_position");
                j += 1;
            }
        } else {
            assert!(blk.len() == d * (d + 1) / 2, "dense_block_length");
            let mut h = 0;
            let mut col = 0;
            while col < d {
                let mut row = 0;
                while row <= col {
                    let t = blk[h];
                    assert!(t < nnzk && !used[t], "Hs_dense_disjoint");
                    used[t] = true;
                    let want = if triu { (start + row, start + col) } else { (start + col, start + row) };
                    assert!(coord(&K, t) == want, "Hs_dense_entry_position_packed_triu_order");
                    h += 1;
                    row += 1;
                }
                col += 1;
            }
        }
        if cone.is_sparse_expandable() {
            assert!(si < S, "every_sparse_cone_has_a_recorded_map");
            let (u, v, D) = map.soc[si];
            assert!(u.len() == d && v.len() == d);
            let mut j = 0;
            while j < d {
                let (tv, tu) = (v[j], u[j]);
                assert!(tv < nnzk && tu < nnzk && !used[tv] && !used[tu] && tu != tv, "uv_disjoint");
                used[tv] = true;
                used[tu] = true;
                let (wv, wu) = if triu {
                    ((start + j, pcol), (start + j, pcol + 1))
                } else {
                    ((pcol, start + j), (pcol + 1, start + j))
                };
                assert!(coord(&K, tv) == wv, "v_vector_in_first_extra_column");
                assert!(coord(&K, tu) == wu, "u_vector_in_second_extra_column");
                j += 1;
            }
            let mut j = 0;
            while j < 2 {
                let t = D[j];
                assert!(t < nnzk && !used[t], "D_disjoint");
                used[t] = true;
                assert!(coord(&K, t) == (pcol + j, pcol + j), "expansion_diagonal_position");
                j += 1;
            }
            pcol += 2;
            si += 1;
        }
        ci += 1;
    }
    // ---- the index sets cover K exactly
    let mut t = 0;
    while t < nnzk {
        assert!(used[t], "every_K_entry_is_accounted_for_by_exactly_one_map");
        t += 1;
    }
}

macro_rules! maps_harness {
    ($name:ident, $m:expr, $nnza:expr, [$($c:expr),*], $pid:expr, $triu:expr, $unwind:expr) => {
        #[kani::proof]
        #[kani::unwind($unwind)]
        #[kani::stub(std::collections::hash_map::RandomState::new, stub_random_state)]
        pub fn $name() {
            use SupportedConeT::*;
            crate::stack_composite!(cones, f64, [$($c),*]);
            maps_check::<$m, $nnza>(&cones, $pid, $triu);
        }
    };
}
macro_rules! maps_harness_sparse {
    ($name:ident, $m:expr, [$($c:expr),*], [$($sd:expr),*], $pid:expr, $triu:expr, $unwind:expr) => {
        #[kani::proof]
        #[kani::unwind($unwind)]
        #[kani::stub(std::collections::hash_map::RandomState::new, stub_random_state)]
        pub fn $name() {
            use SupportedConeT::*;
            crate::stack_composite!(cones, f64, [$($c),*]);
            maps_check_s::<$m, 0, { [$($sd),*].len() }>(&cones, $pid, $triu, [$($sd),*]);
        }
    };
}
// layout [Zero1, NN2]  (m = 3, all-diagonal Hs)
maps_harness!(c11_maps_znn_p3_triu, 3, 3, [ZeroConeT(1), NonnegativeConeT(2)], 3, true, 48);
maps_harness!(c11_maps_znn_p2_tril, 3, 3, [ZeroConeT(1), NonnegativeConeT(2)], 2, false, 48);
maps_harness!(c11_maps_znn_p0_triu, 3, 2, [ZeroConeT(1), NonnegativeConeT(2)], 0, true, 48);
maps_harness!(c11_maps_znn_p4_tril, 3, 2, [ZeroConeT(1), NonnegativeConeT(2)], 4, false, 48);
// layout [NN1, SOC3] (m = 4, dense 3x3 Hs block)
maps_harness!(c11_maps_nnsoc3_p1_triu, 4, 3, [NonnegativeConeT(1), SecondOrderConeT(3)], 1, true, 48);
maps_harness!(c11_maps_nnsoc3_p5_tril, 4, 3, [NonnegativeConeT(1), SecondOrderConeT(3)], 5, false, 48);
// layout [SOC5] (m = 5, sparse expansion: two extra rows/columns)
maps_harness_sparse!(c11_maps_soc5_p0_triu, 5, [SecondOrderConeT(5)], [5usize], 0, true, 26);
maps_harness_sparse!(c11_maps_soc5_p2_tril, 5, [SecondOrderConeT(5)], [5usize], 2, false, 26);
// layout [Exp] (m = 3, dense nonsymmetric block) and [NN1, SOC5, Zero1]
maps_harness!(c11_maps_exp_p4_triu, 3, 2, [ExponentialConeT()], 4, true, 48);
maps_harness_sparse!(c11_maps_nnsoc5z_p1_tril, 7, [NonnegativeConeT(1), SecondOrderConeT(5), ZeroConeT(1)], [5usize], 1, false, 30);

// layout [SOC3, SOC5]: a sparse-expanded cone AFTER a cone with a dense Hs block (row offsets of the
// expansion come from the cone ranges, not from the packed block ranges)
maps_harness_sparse!(c11_maps_soc2soc5_p0_triu, 7, [SecondOrderConeT(2), SecondOrderConeT(5)], [5usize], 0, true, 30);
maps_harness_sparse!(c11_maps_expsoc5_p0_tril, 8, [ExponentialConeT(), SecondOrderConeT(5)], [5usize], 0, false, 34);

/// translation validation of the hook constructor: CompositeCone without the printing-only map
/// agrees with the real constructor on every field the solver uses (run natively, not under Kani)
#[cfg(test)]
mod tv {}

// ---------------------------------------------------------------------------------------------
// C08.kkt_sync / C11.restore — every value written into the solver's KKT matrix (P, A, Hs blocks,
// sparse expansions, regularised diagonal) reaches the LDL engine's own copy, and after the update
// the solver's copy (used for iterative refinement) carries no regularisation.
// The REAL DirectLDLKKTSolver::{update_P, update_A, update (regularize_and_refactor)} run against a
// *mirror* engine that applies update_values / scale_values to its own copy (as QDLDL does with its
// permuted copy) and, when asked to refactor, compares its copy with the matrix it is handed.
// ---------------------------------------------------------------------------------------------
use clarabel::verif_hooks::core::direct::verif_hooks_ldlkkt as lk;
use clarabel::verif_hooks::core::direct::DirectLDLKKTSolver;
use clarabel::verif_hooks::core::direct::{DirectLDLSolver, DirectLDLSolverReqs};
use clarabel::verif_hooks::core::{HasLinearSolverInfo, KKTSolver, LinearSolverInfo};

const CAP: usize = 24;
static mut MIRROR: [f64; CAP] = [0.0; CAP];
static mut MIRROR_N: usize = 0;
static mut REFACTORS: u32 = 0;
static mut MIRROR_EQUALS_KKT_AT_REFACTOR: bool = true;

struct MirrorEngine;
impl DirectLDLSolverReqs<f64> for MirrorEngine {
    fn required_matrix_shape() -> MatrixTriangle {
        MatrixTriangle::Triu
    }
}
impl HasLinearSolverInfo for MirrorEngine {
    fn linear_solver_info(&self) -> LinearSolverInfo {
        LinearSolverInfo { name: String::new(), threads: 1, direct: true, nnzA: 0, nnzL: 0 }
    }
}
impl DirectLDLSolver<f64> for MirrorEngine {
    fn update_values(&mut self, index: &[usize], values: &[f64]) {
        let mut k = 0;
        while k < index.len() {
            unsafe {
                MIRROR[index[k]] = values[k];
            }
            k += 1;
        }
    }
    fn scale_values(&mut self, index: &[usize], scale: f64) {
        let mut k = 0;
        while k < index.len() {
            unsafe {
                MIRROR[index[k]] *= scale;
            }
            k += 1;
        }
    }
    fn offset_values(&mut self, _index: &[usize], _offset: f64, _signs: &[i8]) {}
    fn solve(&mut self, _kkt: &CscMatrix<f64>, _x: &mut [f64], _b: &[f64]) {}
    fn refactor(&mut self, kkt: &CscMatrix<f64>) -> bool {
        unsafe {
            REFACTORS += 1;
            let mut k = 0;
            while k < MIRROR_N {
                if !same_bits(MIRROR[k], kkt.nzval[k]) {
                    MIRROR_EQUALS_KKT_AT_REFACTOR = false;
                }
                k += 1;
            }
        }
        true
    }
}

fn kkt_sync<const M: usize>(cones: &mut CompositeCone<f64>, reg: bool) {
    // P: full upper triangle, A: dense M x 2 (concrete patterns), symbolic values
    let mut P = CscMatrix::<f64> { m: 2, n: 2, colptr: vec![0, 1, 3], rowval: vec![0, 0, 1], nzval: vec![0.0; 3] };
    let mut rowval = Vec::new();
    for _ in 0..2 {
        for i in 0..M {
            rowval.push(i);
        }
    }
    let mut A = CscMatrix::<f64> { m: M, n: 2, colptr: vec![0, M, 2 * M], rowval, nzval: vec![0.0; 2 * M] };
    for k in 0..3 {
        P.nzval[k] = small_f64(9);
    }
    for k in 0..2 * M {
        A.nzval[k] = small_f64(9);
    }
    cones.set_identity_scaling();
    let mut ks = lk::new_with_engine(&P, &A, cones, M, 2, true, |K, _d| {
        // the engine takes its own copy of the assembled matrix, like QDLDL does
        unsafe {
            MIRROR_N = K.nzval.len();
            assert!(MIRROR_N <= CAP);
            let mut k = 0;
            while k < MIRROR_N {
                MIRROR[k] = K.nzval[k];
                k += 1;
            }
        }
        Box::new(MirrorEngine)
    });
    // new data (as update_P / update_A write it after re-applying the equilibration)
    let mut P2 = P.clone();
    let mut A2 = A.clone();
    for k in 0..3 {
        P2.nzval[k] = small_f64(9);
    }
    for k in 0..2 * M {
        A2.nzval[k] = small_f64(9);
    }
    ks.update_P(&P2);
    ks.update_A(&A2);
    let mut st = settings_f64();
    st.static_regularization_enable = reg;
    let ok = ks.update(cones, &st);
    assert!(ok);
    unsafe {
        assert!(REFACTORS == 1, "update_refactors_once");
        assert!(MIRROR_EQUALS_KKT_AT_REFACTOR, "engine_copy_equals_the_KKT_matrix_at_refactor_time");
    }
    let K = lk::kkt(&ks);
    // the solver's copy holds the new data at the recorded positions ...
    let mp = lk::map_P(&ks);
    let ma = lk::map_A(&ks);
    for k in 0..3 {
        if mp[k] != lk::map_diag_full(&ks)[0] && mp[k] != lk::map_diag_full(&ks)[1] {
            assert!(K.nzval[mp[k]] == P2.nzval[k], "KKT_holds_the_new_P_offdiagonal");
        }
    }
    for k in 0..2 * M {
        assert!(K.nzval[ma[k]] == A2.nzval[k], "KKT_holds_the_new_A");
    }
    // ... and an unregularised diagonal: P's diagonal entries and -Hs on the cone block
    let df = lk::map_diag_full(&ks);
    assert!(K.nzval[df[0]] == P2.nzval[0] && K.nzval[df[1]] == P2.nzval[2], "KKT_diagonal_restored_to_the_unregularised_P_diagonal");
    // the engine, on the other hand, was given the shifted diagonal iff regularisation is on
    let eps = lk::diagonal_regularizer(&ks);
    unsafe {
        if reg {
            assert!(eps > 0.0, "regulariser_positive");
            assert!(MIRROR[df[0]] == P2.nzval[0] + eps && MIRROR[df[1]] == P2.nzval[2] + eps, "engine_gets_plus_eps_on_the_primal_block");
            assert!(MIRROR[df[2]] == K.nzval[df[2]] - eps, "engine_gets_minus_eps_on_the_cone_block");
        } else {
            assert!(same_bits(MIRROR[df[0]], K.nzval[df[0]]), "no_shift_without_regularisation");
        }
    }
    let ds = lk::dsigns(&ks);
    assert!(ds[0] == 1 && ds[1] == 1 && ds[2] == -1 && ds[2 + M - 1] == -1, "sign_vector_plus_on_primal_minus_on_cone_rows");
    kani::cover!(P2.nzval[1] == 5.0 && P.nzval[1] == -5.0, "off-diagonal of P changes sign");
    // the harness is over: nothing is asserted about tearing the solver down (its drop glue goes through the
    // boxed trait object of the engine and a dozen Vecs)
    core::mem::forget(ks);
    // (in the build with the c08 feature set CBMC 6.11 reports the drop of this harness's OWN settings value as
    // an invalid free: its `String::new()` field is read back with capacity 9; not reproducible natively, absent
    // from the c11 build of the very same harness, absent when the value is created and dropped on its own -
    // an artefact of the memory model, DESIGN.md 6.6; the value is not dropped)
    core::mem::forget(st);
}

#[kani::proof]
#[kani::unwind(14)]
#[kani::stub(std::collections::hash_map::RandomState::new, stub_random_state)]
pub fn c11_kkt_sync_nn2_reg() {
    crate::stack_composite!(cones, f64, [SupportedConeT::<f64>::NonnegativeConeT(2)]);
    kkt_sync::<2>(&mut cones, true);
}

#[kani::proof]
#[kani::unwind(14)]
#[kani::stub(std::collections::hash_map::RandomState::new, stub_random_state)]
pub fn c11_kkt_sync_zero1_nn1_noreg() {
    crate::stack_composite!(cones, f64, [SupportedConeT::<f64>::ZeroConeT(1), SupportedConeT::<f64>::NonnegativeConeT(1)]);
    kkt_sync::<2>(&mut cones, false);
}

#[kani::proof]
#[kani::unwind(22)]
#[kani::stub(std::collections::hash_map::RandomState::new, stub_random_state)]
pub fn c11_kkt_sync_soc5_reg() {
    // sparse expansion: update() also writes u, v (update + scale) and the expansion diagonal
    crate::stack_composite!(cones, f64, [SupportedConeT::<f64>::SecondOrderConeT(5)]);
    kkt_sync::<5>(&mut cones, true);
}

