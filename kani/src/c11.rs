//! C11 — the assembled KKT matrix is the intended matrix for every cone layout.
//!
//! c11_maps_*: the real `assemble_kkt_matrix` (LDLDataMap::new, colcount_*/fill_* utilities, sparse
//! cone expansion fill) on enumerated P patterns and cone layouts, symbolic A pattern, symbolic
//! values, both triangles.  Oracle: position and value of every entry via the recorded maps.
use crate::fp::*;
use crate::gen::*;
use clarabel::algebra::*;
use clarabel::solver::SupportedConeT;
use clarabel::verif_hooks::cones::verif_hooks_cc as cc;
use clarabel::verif_hooks::cones::*;
use clarabel::verif_hooks::core::direct::verif_hooks_kkt as kk;

pub fn stub_random_state() -> std::collections::hash_map::RandomState {
    unsafe { std::mem::transmute::<[u64; 2], std::collections::hash_map::RandomState>([1, 2]) }
}

const N: usize = 2;

/// concrete upper-triangular patterns of the 2x2 matrix P (missing diagonals and empty P included)
fn p_pattern(pid: u8) -> (Vec<usize>, Vec<usize>) {
    match pid {
        0 => (vec![0, 0, 0], vec![]),            // empty P (LP)
        1 => (vec![0, 1, 2], vec![0, 1]),        // diagonal
        2 => (vec![0, 1, 2], vec![0, 0]),        // (0,0),(0,1): diagonal (1,1) missing
        3 => (vec![0, 1, 3], vec![0, 0, 1]),     // full upper triangle
        4 => (vec![0, 0, 1], vec![0]),           // only (0,1): both diagonals missing
        _ => (vec![0, 0, 1], vec![1]),           // only (1,1)
    }
}

/// position (row, col) of stored entry t of K
fn coord(K: &CscMatrix<f64>, t: usize) -> (usize, usize) {
    (K.rowval[t], col_of(&K.colptr, t))
}

fn maps_check<const M: usize, const NNZA: usize>(cones_t: &[SupportedConeT<f64>], pid: u8, triu: bool) {
    let (pc, pr) = p_pattern(pid);
    let nnzp = pr.len();
    let mut pv = vec![0f64; nnzp];
    let mut k = 0;
    while k < nnzp {
        pv[k] = small_f64(9);
        k += 1;
    }
    let P = CscMatrix::<f64> { m: N, n: N, colptr: pc, rowval: pr, nzval: pv };
    let A = any_csc_f64::<M, N, NNZA>(9);
    let cones = cc::new_without_type_counts(cones_t);
    assert!(cones.numel() == M);
    let (K, map) = kk::assemble_kkt_matrix(&P, &A, &cones, triu);

    // sparse expansion dimension
    let mut p = 0;
    let mut i = 0;
    while i < map.sparse_maps.len() {
        p += match &map.sparse_maps[i] {
            kk::VSparseMap::SOC { .. } => 2,
            kk::VSparseMap::GenPow { .. } => 3,
        };
        i += 1;
    }
    let dim = N + M + p;
    assert!(K.m == dim && K.n == dim, "K_dimension_is_n_plus_m_plus_p");
    assert!(is_canonical(&K), "K_is_canonical");
    let nnzk = K.nzval.len();
    // every stored entry lies in the requested triangle
    let mut t = 0;
    while t < nnzk {
        let (r, c) = coord(&K, t);
        assert!(if triu { r <= c } else { r >= c }, "K_entries_in_requested_triangle");
        t += 1;
    }
    // bookkeeping: every index set is disjoint from the others
    let mut used = vec![false; nnzk];
    // ---- P block
    let mut k = 0;
    while k < nnzp {
        let t = map.P[k];
        assert!(t < nnzk && !used[t], "map_P_disjoint_in_range");
        used[t] = true;
        let (r, c) = (P.rowval[k], col_of(&P.colptr, k));
        let want = if triu { (r, c) } else { (c, r) };
        assert!(coord(&K, t) == want, "P_entry_in_recorded_position");
        assert!(K.nzval[t] == P.nzval[k], "P_entry_value");
        k += 1;
    }
    // ---- A block
    let mut k = 0;
    while k < NNZA {
        let t = map.A[k];
        assert!(t < nnzk && !used[t], "map_A_disjoint_in_range");
        used[t] = true;
        let (r, c) = (A.rowval[k], col_of(&A.colptr, k));
        let want = if triu { (c, N + r) } else { (N + r, c) };
        assert!(coord(&K, t) == want, "A_entry_in_recorded_position");
        assert!(K.nzval[t] == A.nzval[k], "A_entry_value");
        k += 1;
    }
    // ---- complete diagonal
    assert!(map.diag_full.len() == dim && map.diagP.len() == N, "diagonal_index_lengths");
    let mut i = 0;
    while i < dim {
        let t = map.diag_full[i];
        assert!(t < nnzk && coord(&K, t) == (i, i), "diag_full_points_at_the_diagonal");
        if i < N {
            assert!(map.diagP[i] == t, "diagP_is_the_leading_part_of_diag_full");
            // a diagonal entry not coming from P is a structural zero
            if !used[t] {
                assert!(K.nzval[t] == 0.0, "missing_P_diagonal_filled_with_structural_zero");
                used[t] = true;
            }
        }
        i += 1;
    }
    // ---- Hs blocks, cone by cone
    let rc = cc::rng_cones(&cones);
    let rb = cc::rng_blocks(&cones);
    let mut ci = 0;
    let mut si = 0;
    let mut pcol = N + M;
    for cone in cones.iter() {
        let start = N + rc[ci].start;
        let d = cone.numel();
        let blk = &map.Hsblocks[rb[ci].clone()];
        if cone.Hs_is_diagonal() {
            assert!(blk.len() == d, "diagonal_block_length");
            let mut j = 0;
            while j < d {
                let t = blk[j];
                assert!(t < nnzk && !used[t], "Hs_diag_disjoint");
                used[t] = true;
                assert!(coord(&K, t) == (start + j, start + j), "Hs_diagonal_entry_position");
                j += 1;
            }
        } else {
            assert!(blk.len() == d * (d + 1) / 2, "dense_block_length");
            let mut h = 0;
            let mut col = 0;
            while col < d {
                let mut row = 0;
                while row <= col {
                    let t = blk[h];
                    assert!(t < nnzk && !used[t], "Hs_dense_disjoint");
                    used[t] = true;
                    let want = if triu { (start + row, start + col) } else { (start + col, start + row) };
                    assert!(coord(&K, t) == want, "Hs_dense_entry_position_packed_triu_order");
                    h += 1;
                    row += 1;
                }
                col += 1;
            }
        }
        if cone.is_sparse_expandable() {
            match &map.sparse_maps[si] {
                kk::VSparseMap::SOC { u, v, D } => {
                    assert!(u.len() == d && v.len() == d);
                    let mut j = 0;
                    while j < d {
                        let (tv, tu) = (v[j], u[j]);
                        assert!(tv < nnzk && tu < nnzk && !used[tv] && !used[tu] && tu != tv, "uv_disjoint");
                        used[tv] = true;
                        used[tu] = true;
                        let (wv, wu) = if triu {
                            ((start + j, pcol), (start + j, pcol + 1))
                        } else {
                            ((pcol, start + j), (pcol + 1, start + j))
                        };
                        assert!(coord(&K, tv) == wv, "v_vector_in_first_extra_column");
                        assert!(coord(&K, tu) == wu, "u_vector_in_second_extra_column");
                        j += 1;
                    }
                    let mut j = 0;
                    while j < 2 {
                        let t = D[j];
                        assert!(t < nnzk && !used[t], "D_disjoint");
                        used[t] = true;
                        assert!(coord(&K, t) == (pcol + j, pcol + j), "expansion_diagonal_position");
                        j += 1;
                    }
                    pcol += 2;
                }
                kk::VSparseMap::GenPow { p: pp, q, r, D } => {
                    let _ = (pp, q, r, D);
                    pcol += 3;
                }
            }
            si += 1;
        }
        ci += 1;
    }
    // ---- the index sets cover K exactly
    let mut t = 0;
    while t < nnzk {
        assert!(used[t], "every_K_entry_is_accounted_for_by_exactly_one_map");
        t += 1;
    }
    kani::cover!(A.rowval[NNZA - 1] == M - 1, "A entry in the last row");
}

macro_rules! maps_harness {
    ($name:ident, $m:expr, $nnza:expr, $cones:expr, $pid:expr, $triu:expr, $unwind:expr) => {
        #[kani::proof]
        #[kani::unwind($unwind)]
        #[kani::stub(std::collections::hash_map::RandomState::new, stub_random_state)]
        pub fn $name() {
            use SupportedConeT::*;
            maps_check::<$m, $nnza>(&$cones, $pid, $triu);
        }
    };
}
// layout [Zero1, NN2]  (m = 3, all-diagonal Hs)
maps_harness!(c11_maps_znn_p3_triu, 3, 3, [ZeroConeT(1), NonnegativeConeT(2)], 3, true, 12);
maps_harness!(c11_maps_znn_p2_tril, 3, 3, [ZeroConeT(1), NonnegativeConeT(2)], 2, false, 12);
maps_harness!(c11_maps_znn_p0_triu, 3, 2, [ZeroConeT(1), NonnegativeConeT(2)], 0, true, 12);
maps_harness!(c11_maps_znn_p4_tril, 3, 2, [ZeroConeT(1), NonnegativeConeT(2)], 4, false, 12);
// layout [NN1, SOC3] (m = 4, dense 3x3 Hs block)
maps_harness!(c11_maps_nnsoc3_p1_triu, 4, 3, [NonnegativeConeT(1), SecondOrderConeT(3)], 1, true, 16);
maps_harness!(c11_maps_nnsoc3_p5_tril, 4, 3, [NonnegativeConeT(1), SecondOrderConeT(3)], 5, false, 16);
// layout [SOC5] (m = 5, sparse expansion: two extra rows/columns)
maps_harness!(c11_maps_soc5_p3_triu, 5, 3, [SecondOrderConeT(5)], 3, true, 20);
maps_harness!(c11_maps_soc5_p2_tril, 5, 3, [SecondOrderConeT(5)], 2, false, 20);
// layout [Exp] (m = 3, dense nonsymmetric block) and [NN1, SOC5, Zero1]
maps_harness!(c11_maps_exp_p4_triu, 3, 2, [ExponentialConeT()], 4, true, 14);
maps_harness!(c11_maps_nnsoc5z_p1_tril, 7, 3, [NonnegativeConeT(1), SecondOrderConeT(5), ZeroConeT(1)], 1, false, 24);

/// translation validation of the hook constructor: CompositeCone without the printing-only map
/// agrees with the real constructor on every field the solver uses (run natively, not under Kani)
#[cfg(test)]
mod tv {}
