//! C13 — symmetric-cone scaling operators satisfy the Nesterov-Todd identities (NN and SOC).
//! Exact field arithmetic GF(p): the real generic cone code is instantiated at Fp (fp.rs); every
//! identity below is an identity of rational functions of the inputs, decided for ALL field values.
//! sqrt is a nondeterministic root; identities that depend on the *choice* of root are asserted up
//! to sign.  Nothing here is about rounding or conditioning (outside the claim); PSD cone: LAPACK, out.
use crate::fp::*;
use crate::gen::*;
use clarabel::algebra::verif_hooks::{MatrixShape, MatrixTriangle};
use clarabel::algebra::*;
use clarabel::verif_hooks::cones::*;
use clarabel::verif_hooks::core::ScalingStrategy;
use num_traits::{Float, One, Zero};

fn anyv<F: kani::Arbitrary + Copy + Zero, const K: usize>() -> [F; K] {
    let mut v = [F::zero(); K];
    let mut i = 0;
    while i < K {
        v[i] = kani::any();
        i += 1;
    }
    v
}

/// an SOC of dimension D with arbitrary *normalised* scaling point: w0^2 - |w1|^2 = 1, eta != 0, 1 + w0 != 0
fn soc_with_scaling<const P: u16, const D: usize>() -> SecondOrderCone<Fp<P>> {
    let mut c = SecondOrderCone::<Fp<P>>::new(D);
    let w: [Fp<P>; D] = anyv();
    let mut s = Fp::<P>::zero();
    let mut i = 1;
    while i < D {
        s = s + w[i] * w[i];
        i += 1;
    }
    kani::assume(w[0] * w[0] - s == Fp::<P>::one());
    kani::assume((Fp::<P>::one() + w[0]).0 != 0);
    c.w.copy_from_slice(&w);
    c.η = Fp::<P>::any_nonzero();
    c
}

/// W^-1 (W x) = x
fn soc_winv_w<const P: u16, const D: usize>() {
    let mut c = soc_with_scaling::<P, D>();
    let x: [Fp<P>; D] = anyv();
    let mut wx = [Fp::<P>::zero(); D];
    let mut back = [Fp::<P>::zero(); D];
    c.mul_W(MatrixShape::N, &mut wx, &x, Fp::one(), Fp::zero());
    c.mul_Winv(MatrixShape::N, &mut back, &wx, Fp::one(), Fp::zero());
    let mut i = 0;
    while i < D {
        assert!(back[i] == x[i], "Winv_W_is_identity");
        i += 1;
    }
    kani::cover!(c.w[1].0 != 0 && x[0].0 == 2 && wx[0].0 == 5, "nontrivial scaling point");
}

/// W (W^-1 x) = x
fn soc_w_winv<const P: u16, const D: usize>() {
    let mut c = soc_with_scaling::<P, D>();
    let x: [Fp<P>; D] = anyv();
    let mut wix = [Fp::<P>::zero(); D];
    let mut back = [Fp::<P>::zero(); D];
    c.mul_Winv(MatrixShape::T, &mut wix, &x, Fp::one(), Fp::zero());
    c.mul_W(MatrixShape::T, &mut back, &wix, Fp::one(), Fp::zero());
    let mut i = 0;
    while i < D {
        assert!(back[i] == x[i], "W_Winv_is_identity");
        i += 1;
    }
    kani::cover!(c.w[1].0 != 0 && x[0].0 == 2, "nontrivial scaling point");
}

/// W is symmetric: the matrix read off column by column (W e_j) equals its transpose, and the
/// transposed application is the same operator
fn soc_w_symmetric<const P: u16, const D: usize>() {
    let mut c = soc_with_scaling::<P, D>();
    let mut m = [[Fp::<P>::zero(); D]; D];
    let mut mt = [[Fp::<P>::zero(); D]; D];
    let mut j = 0;
    while j < D {
        let mut e = [Fp::<P>::zero(); D];
        e[j] = Fp::one();
        c.mul_W(MatrixShape::N, &mut m[j], &e, Fp::one(), Fp::zero());
        c.mul_W(MatrixShape::T, &mut mt[j], &e, Fp::one(), Fp::zero());
        j += 1;
    }
    let mut i = 0;
    while i < D {
        let mut j = 0;
        while j < D {
            assert!(m[i][j] == m[j][i], "W_is_symmetric");
            assert!(m[i][j] == mt[i][j], "transposed_application_is_the_same_operator");
            j += 1;
        }
        i += 1;
    }
    kani::cover!(c.w[1].0 != 0 && m[0][1].0 == 3, "nontrivial scaling point");
}

/// mul_W implements y <- a W x + b y
fn soc_w_alpha_beta<const P: u16, const D: usize>() {
    let mut c = soc_with_scaling::<P, D>();
    let x: [Fp<P>; D] = anyv();
    let y: [Fp<P>; D] = anyv();
    let mut wx = [Fp::<P>::zero(); D];
    c.mul_W(MatrixShape::N, &mut wx, &x, Fp::one(), Fp::zero());
    let a = Fp::<P>::any();
    let b = Fp::<P>::any();
    let mut acc = y;
    c.mul_W(MatrixShape::N, &mut acc, &x, a, b);
    let mut i = 0;
    while i < D {
        assert!(acc[i] == a * wx[i] + b * y[i], "mul_W_alpha_beta_form");
        i += 1;
    }
    kani::cover!(c.w[1].0 != 0 && a.0 == 2 && b.0 == 3, "nontrivial scaling point");
}

macro_rules! soc_w_harness {
    ($name:ident, $f:ident, $p:expr, $d:expr, $unwind:expr) => {
        #[kani::proof]
        #[kani::unwind($unwind)]
        pub fn $name() {
            $f::<$p, $d>();
        }
    };
}
soc_w_harness!(c13_soc3_winv_w_p7, soc_winv_w, 7, 3, 5);
soc_w_harness!(c13_soc3_w_winv_p7, soc_w_winv, 7, 3, 5);
soc_w_harness!(c13_soc3_w_symmetric_p7, soc_w_symmetric, 7, 3, 5);
soc_w_harness!(c13_soc3_w_alpha_beta_p7, soc_w_alpha_beta, 7, 3, 5);
soc_w_harness!(c13_soc3_winv_w, soc_winv_w, 13, 3, 5);
soc_w_harness!(c13_soc3_w_winv, soc_w_winv, 13, 3, 5);
soc_w_harness!(c13_soc3_w_symmetric, soc_w_symmetric, 13, 3, 5);
soc_w_harness!(c13_soc5_winv_w, soc_winv_w, 13, 5, 7);

/// mul_Hs = W'W, and the dense block written into the KKT matrix (get_Hs) is that same operator
#[kani::proof]
#[kani::unwind(8)]
pub fn c13_soc3_hs_dense() {
    hs_dense::<13>();
}
#[kani::proof]
#[kani::unwind(8)]
pub fn c13_soc3_hs_dense_p7() {
    hs_dense::<7>();
}
fn hs_dense<const P: u16>() {
    const D: usize = 3;
    let mut c = soc_with_scaling::<P, D>();
    let x: [Fp<P>; D] = anyv();
    let mut wx = [Fp::<P>::zero(); D];
    let mut wwx = [Fp::<P>::zero(); D];
    let mut hx = [Fp::<P>::zero(); D];
    let mut work = [Fp::<P>::zero(); D];
    c.mul_W(MatrixShape::N, &mut wx, &x, Fp::one(), Fp::zero());
    c.mul_W(MatrixShape::T, &mut wwx, &wx, Fp::one(), Fp::zero());
    c.mul_Hs(&mut hx, &x, &mut work);
    let mut i = 0;
    while i < D {
        assert!(hx[i] == wwx[i], "mul_Hs_equals_Wt_W");
        i += 1;
    }
    kani::cover!(hx[0].0 == 3 && c.w[2].0 != 0);
}

/// the packed upper-triangular block returned by get_Hs, unpacked, is the operator mul_Hs.
/// Over GF(17) (2 = 6^2 is a square there, so the constant SQRT_2 of the code has a value).
#[kani::proof]
#[kani::unwind(8)]
pub fn c13_soc3_hs_block() {
    hs_block::<17>();
}
#[kani::proof]
#[kani::unwind(8)]
pub fn c13_soc3_hs_block_p7() {
    hs_block::<7>();
}
fn hs_block<const P: u16>() {
    const D: usize = 3;
    let mut c = soc_with_scaling::<P, D>();
    let mut blk = [Fp::<P>::zero(); 6];
    c.get_Hs(&mut blk);
    let x: [Fp<P>; D] = anyv();
    let mut hx = [Fp::<P>::zero(); D];
    let mut work = [Fp::<P>::zero(); D];
    c.mul_Hs(&mut hx, &x, &mut work);
    // unpack: column-major packed upper triangle
    let mut h = [[Fp::<P>::zero(); D]; D];
    let mut k = 0;
    let mut col = 0;
    while col < D {
        let mut row = 0;
        while row <= col {
            h[row][col] = blk[k];
            h[col][row] = blk[k];
            k += 1;
            row += 1;
        }
        col += 1;
    }
    let mut i = 0;
    while i < D {
        let mut acc = Fp::<P>::zero();
        let mut j = 0;
        while j < D {
            acc = acc + h[i][j] * x[j];
            j += 1;
        }
        assert!(acc == hx[i], "KKT_block_get_Hs_is_the_operator_mul_Hs");
        i += 1;
    }
    kani::cover!(hx[1].0 == 4 && c.w[1].0 != 0);
}

/// after the real update_scaling(s, z): w is normalised, eta^4 = res(s)/res(z), and the sparse expansion
/// eta^2 (D + u u' - v v') is the operator mul_Hs.  These facts do not depend on WHICH square roots are
/// taken.  The Nesterov-Todd identity itself, (W'W) z = s, holds only for a coherent choice of the nested
/// roots (over the reals: the positive ones); a field has no such notion, and with the arbitrary roots
/// of fp.rs the solver duly produces assignments where it fails (a false alarm of the first version of
/// this harness, see DESIGN.md §6.6) - it is therefore NOT decided here.
fn soc_update_scaling<const P: u16, const D: usize>(check_sparse: bool) {
    let mut c = SecondOrderCone::<Fp<P>>::new(D);
    let mut s: [Fp<P>; D] = anyv();
    let mut z: [Fp<P>; D] = anyv();
    if D > 3 {
        // dimension 5: only the first two tail entries are symbolic, the rest are zero.  The code treats
        // all tail entries alike, so a wrong coefficient in u, v, d or w shows with one active entry;
        // with ten free field elements and eight nested square roots the query does not finish in an hour.
        let mut i = 3;
        while i < D {
            s[i] = Fp::zero();
            z[i] = Fp::zero();
            i += 1;
        }
    }
    let ok = c.update_scaling(&s, &z, Fp::one(), ScalingStrategy::PrimalDual);
    kani::cover!(ok, "opt: update_scaling succeeded (all roots exist)");
    kani::assume(ok);
    kani::assume(c.η.0 != 0 && (Fp::<P>::one() + c.w[0]).0 != 0);
    // normalisation
    let mut w1sq = Fp::<P>::zero();
    let mut i = 1;
    while i < D {
        w1sq = w1sq + c.w[i] * c.w[i];
        i += 1;
    }
    assert!(c.w[0] * c.w[0] - w1sq == Fp::<P>::one(), "w_is_normalised");
    // eta^4 = res(s) / res(z)
    let res = |v: &[Fp<P>; D]| {
        let mut r = v[0] * v[0];
        let mut i = 1;
        while i < D {
            r = r - v[i] * v[i];
            i += 1;
        }
        r
    };
    let e2 = c.η * c.η;
    assert!(e2 * e2 * res(&z) == res(&s), "eta_to_the_fourth_is_the_ratio_of_the_residuals");
    let mut work = [Fp::<P>::zero(); D];
    if check_sparse {
        // over the reals q = w0^2 + |w1|^2 >= 1, so the denominators q, q - 1/(2q) and 2q - 1/q of the sparse
        // expansion are positive; in a field a sum of squares can vanish (GF(17): w = (3,15,2), q = 0, and the
        // code's 1/q, u, v collapse to 0 - a false alarm of the first GF(17) run): assumed away here
        let q = c.w[0] * c.w[0] + w1sq;
        let two = Fp::<P>::one() + Fp::<P>::one();
        kani::assume(q.0 != 0 && (two * q * q - Fp::<P>::one()).0 != 0);
        let (su, sv, sdd) = {
            let sd = c.sparse_data.as_ref().unwrap();
            let mut su = [Fp::<P>::zero(); D];
            let mut sv = [Fp::<P>::zero(); D];
            let mut i = 0;
            while i < D {
                su[i] = sd.u[i];
                sv[i] = sd.v[i];
                i += 1;
            }
            (su, sv, sd.d)
        };
        let x: [Fp<P>; D] = anyv();
        let mut ux = Fp::<P>::zero();
        let mut vx = Fp::<P>::zero();
        let mut i = 0;
        while i < D {
            ux = ux + su[i] * x[i];
            vx = vx + sv[i] * x[i];
            i += 1;
        }
        let mut hx = [Fp::<P>::zero(); D];
        c.mul_Hs(&mut hx, &x, &mut work);
        // diagonal block as written into the KKT matrix
        let mut dblk = [Fp::<P>::zero(); D];
        c.get_Hs(&mut dblk);
        let mut i = 0;
        while i < D {
            let want = dblk[i] * x[i] + e2 * (su[i] * ux - sv[i] * vx);
            assert!(want == hx[i], "sparse_expansion_D_plus_uut_minus_vvt_is_the_operator_mul_Hs");
            i += 1;
        }
        assert!(dblk[0] == e2 * sdd && dblk[1] == e2, "sparse_diagonal_block_is_eta2_times_diag(d,1,..)");
    }
    kani::cover!(c.w[1].0 != 0 || c.w[2].0 != 0, "scaling point with a nonzero tail");
    // over GF(7) the only scaling points at which every nested root of the sparse path exists have v = 0 (the
    // harness is then blind to the coefficient of v): the informative instances are the ones where this
    // witness is reachable
    let v_nonzero = match c.sparse_data.as_ref() {
        Some(sd) if check_sparse => sd.v[1].0 != 0 || sd.v[2].0 != 0,
        _ => true,
    };
    kani::cover!(P == 7 || v_nonzero, "sparse expansion with a nonzero v (required except over GF(7))");
    kani::cover!(s[1].0 != 0 && z[2].0 != 0 && c.w[1].0 != 0, "opt: interior points with nonzero tails");
}

#[kani::proof]
#[kani::unwind(5)]
pub fn c13_soc3_update_scaling() {
    soc_update_scaling::<13, 3>(false);
}
#[kani::proof]
#[kani::unwind(7)]
pub fn c13_soc5_update_scaling_sparse() {
    soc_update_scaling::<13, 5>(true);
}
#[kani::proof]
#[kani::unwind(7)]
pub fn c13_soc5_update_scaling_sparse_p31() {
    soc_update_scaling::<31, 5>(true);
}
#[kani::proof]
#[kani::unwind(7)]
pub fn c13_soc5_update_scaling_sparse_p7() {
    soc_update_scaling::<7, 5>(true);
}
#[kani::proof]
#[kani::unwind(7)]
pub fn c13_soc5_update_scaling_sparse_p17() {
    soc_update_scaling::<17, 5>(true);
}
#[kani::proof]
#[kani::unwind(7)]
pub fn c13_soc5_update_scaling_sparse_p19() {
    soc_update_scaling::<19, 5>(true);
}

/// set_identity_scaling leaves NOTHING of an earlier scaling point behind: from ARBITRARY contents of w, eta and
/// the sparse expansion (d, u, v) the cone is reset so that the expansion eta^2 (D + uu' - vv') written into the
/// KKT matrix is again the operator mul_Hs - the identity (this is the state the solver starts every solve
/// from, also a second solve on the same object)
fn soc_identity_scaling<const P: u16, const D: usize>() {
    let mut c = SecondOrderCone::<Fp<P>>::new(D);
    // arbitrary leftovers
    c.η = Fp::<P>::any();
    let mut i = 0;
    while i < D {
        c.w[i] = Fp::<P>::any();
        i += 1;
    }
    if let Some(sd) = c.sparse_data.as_mut() {
        sd.d = Fp::<P>::any();
        let mut i = 0;
        while i < D {
            sd.u[i] = Fp::<P>::any();
            sd.v[i] = Fp::<P>::any();
            i += 1;
        }
    }
    c.set_identity_scaling();
    let x: [Fp<P>; D] = anyv();
    let mut work = [Fp::<P>::zero(); D];
    let mut hx = [Fp::<P>::zero(); D];
    c.mul_Hs(&mut hx, &x, &mut work);
    let mut i = 0;
    while i < D {
        assert!(hx[i] == x[i], "identity_scaling_operator_is_the_identity");
        i += 1;
    }
    if let Some(sd) = c.sparse_data.as_ref() {
        let e2 = c.η * c.η;
        let mut dblk = [Fp::<P>::zero(); D];
        c.get_Hs(&mut dblk);
        let mut ux = Fp::<P>::zero();
        let mut vx = Fp::<P>::zero();
        let mut i = 0;
        while i < D {
            ux = ux + sd.u[i] * x[i];
            vx = vx + sd.v[i] * x[i];
            i += 1;
        }
        let mut i = 0;
        while i < D {
            let want = dblk[i] * x[i] + e2 * (sd.u[i] * ux - sd.v[i] * vx);
            assert!(want == hx[i], "sparse_expansion_at_identity_scaling_is_the_operator_mul_Hs");
            i += 1;
        }
    }
    kani::cover!(x[0].0 == 3 && x[D - 1].0 == 2, "generic vector");
}

#[kani::proof]
#[kani::unwind(7)]
pub fn c13_soc5_identity_scaling_resets_expansion() {
    soc_identity_scaling::<17, 5>();
}
#[kani::proof]
#[kani::unwind(5)]
pub fn c13_soc3_identity_scaling() {
    soc_identity_scaling::<17, 3>();
}

/// Jordan algebra: circ_op is the arrow product, inv_circ_op inverts it; affine_ds = lambda o lambda;
/// the combined shift is W^-1 ds o W dz - sigma mu e
#[kani::proof]
#[kani::unwind(6)]
pub fn c13_soc3_jordan() {
    jordan::<13>();
}
#[kani::proof]
#[kani::unwind(6)]
pub fn c13_soc3_jordan_p7() {
    jordan::<7>();
}
fn jordan<const P: u16>() {
    const D: usize = 3;
    let mut c = soc_with_scaling::<P, D>();
    let y: [Fp<P>; D] = anyv();
    let x: [Fp<P>; D] = anyv();
    let mut yx = [Fp::<P>::zero(); D];
    c.circ_op(&mut yx, &y, &x);
    assert!(yx[0] == y[0] * x[0] + y[1] * x[1] + y[2] * x[2], "circ_op_head_is_inner_product");
    assert!(yx[1] == y[0] * x[1] + x[0] * y[1] && yx[2] == y[0] * x[2] + x[0] * y[2], "circ_op_tail_is_arrow_product");
    // inverse (defined when y0 != 0 and the residual of y is nonzero)
    let res = y[0] * y[0] - y[1] * y[1] - y[2] * y[2];
    kani::assume(y[0].0 != 0 && res.0 != 0);
    let mut back = [Fp::<P>::zero(); D];
    c.inv_circ_op(&mut back, &y, &yx);
    let mut i = 0;
    while i < D {
        assert!(back[i] == x[i], "inv_circ_op_inverts_circ_op");
        i += 1;
    }
    // affine_ds = lambda o lambda
    let lam: [Fp<P>; D] = anyv();
    c.λ.copy_from_slice(&lam);
    let mut ds = [Fp::<P>::zero(); D];
    c.affine_ds(&mut ds, &x);
    assert!(ds[0] == lam[0] * lam[0] + lam[1] * lam[1] + lam[2] * lam[2] && ds[1] == lam[0] * lam[1] + lam[0] * lam[1], "affine_ds_is_lambda_circ_lambda");
    // combined shift
    let dz: [Fp<P>; D] = anyv();
    let dsv: [Fp<P>; D] = anyv();
    let sm = Fp::<P>::any();
    let mut wdz = [Fp::<P>::zero(); D];
    let mut wids = [Fp::<P>::zero(); D];
    c.mul_W(MatrixShape::N, &mut wdz, &dz, Fp::<P>::one(), Fp::<P>::zero());
    c.mul_Winv(MatrixShape::T, &mut wids, &dsv, Fp::<P>::one(), Fp::<P>::zero());
    let mut want = [Fp::<P>::zero(); D];
    c.circ_op(&mut want, &wids, &wdz);
    want[0] = want[0] - sm;
    let mut shift = [Fp::<P>::zero(); D];
    let mut step_z = dz;
    let mut step_s = dsv;
    c.combined_ds_shift(&mut shift, &mut step_z, &mut step_s, sm);
    let mut i = 0;
    while i < D {
        assert!(shift[i] == want[i], "combined_shift_is_Winv_ds_circ_W_dz_minus_sigma_mu_e");
        i += 1;
    }
    kani::cover!(back[1].0 == 3 && sm.0 == 2);
}

/// nonnegative cone: w^2 = s/z, lambda^2 = s z, Hs = w^2 (diagonal), W W^-1 = I, ds offset = ds / z
#[kani::proof]
#[kani::unwind(5)]
pub fn c13_nn_scaling() {
    const D: usize = 2;
    type G = F13;
    let mut c = NonnegativeCone::<G>::new(D);
    let mut s = [G::zero(); D];
    let mut z = [G::zero(); D];
    let mut i = 0;
    while i < D {
        s[i] = G::any_nonzero();
        z[i] = G::any_nonzero();
        i += 1;
    }
    let ok = c.update_scaling(&s, &z, G::one(), ScalingStrategy::PrimalDual);
    assert!(ok);
    let mut h = [G::zero(); D];
    c.get_Hs(&mut h);
    let x: [G; D] = anyv();
    let mut hx = [G::zero(); D];
    let mut work = [G::zero(); D];
    c.mul_Hs(&mut hx, &x, &mut work);
    let mut wx = [G::zero(); D];
    let mut back = [G::zero(); D];
    c.mul_W(MatrixShape::N, &mut wx, &x, G::one(), G::zero());
    c.mul_Winv(MatrixShape::N, &mut back, &wx, G::one(), G::zero());
    let mut lam2 = [G::zero(); D];
    c.affine_ds(&mut lam2, &s);
    let mut off = [G::zero(); D];
    let ds: [G; D] = anyv();
    c.Δs_from_Δz_offset(&mut off, &ds, &mut work, &z);
    let mut i = 0;
    while i < D {
        assert!(h[i] * z[i] == s[i], "Hs_is_s_over_z");
        assert!(hx[i] == h[i] * x[i], "mul_Hs_is_the_diagonal_block");
        assert!(back[i] == x[i], "Winv_W_is_identity");
        assert!(lam2[i] == s[i] * z[i], "lambda_squared_is_s_z");
        assert!(off[i] * z[i] == ds[i], "ds_offset_is_ds_over_z");
        i += 1;
    }
    kani::cover!(s[0].0 == 3 && z[0].0 == 4);
}

/// nonnegative cone at f64 over MANY orders of magnitude (s, z powers of two with an even exponent
/// difference, s/z up to 2^±240, far beyond 1/eps): the diagonal block written into the KKT matrix is exactly
/// s/z and it is the very operator mul_Hs applies - no capping, no flooring, whatever the ratio
#[kani::proof]
#[kani::unwind(4)]
pub fn c13_nn_scaling_pow2_f64() {
    const D: usize = 2;
    let p2 = |lo: i32, hi: i32| {
        let k: i32 = kani::any();
        kani::assume(k >= lo && k <= hi);
        (k, f64::from_bits(((1023 + k) as u64) << 52))
    };
    let mut c = NonnegativeCone::<f64>::new(D);
    let (a0, s0) = p2(-120, 120);
    let (b0, z0) = p2(-120, 120);
    let (a1, s1) = p2(-120, 120);
    let (b1, z1) = p2(-120, 120);
    kani::assume((a0 - b0) % 2 == 0 && (a1 - b1) % 2 == 0); // exact square roots
    let (s, z) = ([s0, s1], [z0, z1]);
    let ok = c.update_scaling(&s, &z, 1.0, ScalingStrategy::PrimalDual);
    assert!(ok);
    let mut h = [0.0f64; D];
    c.get_Hs(&mut h);
    let (_, x0) = p2(-60, 60);
    let x = [x0, -x0];
    let mut hx = [0.0f64; D];
    let mut work = [0.0f64; D];
    c.mul_Hs(&mut hx, &x, &mut work);
    let mut i = 0;
    while i < D {
        assert!(h[i] == s[i] / z[i], "KKT_block_is_exactly_s_over_z_at_every_magnitude");
        assert!(hx[i] == h[i] * x[i], "KKT_block_is_the_operator_mul_Hs");
        i += 1;
    }
    kani::cover!(a0 - b0 >= 100, "ratio far above 1/eps");
    kani::cover!(b1 - a1 >= 100, "ratio far below eps");
}
