//! C08 — in-place data updates: the public update traits (what update_P/q/A/b delegate to),
//! for every argument form, valid and invalid.  Exact arithmetic over GF(13).
use crate::fp::*;
use crate::gen::*;
use clarabel::algebra::*;
use clarabel::solver::implementations::default::verif_hooks as dh;
use clarabel::solver::*;
use num_traits::{One, Zero};

type F = F13;

fn anyv<const K: usize>() -> [F; K] {
    let mut v = [F::zero(); K];
    let mut i = 0;
    while i < K {
        v[i] = F::any();
        i += 1;
    }
    v
}

fn any_cscale() -> Option<F> {
    if kani::any() {
        Some(F::any())
    } else {
        None
    }
}

/// whole-vector forms: [T], Vec<T>, [T;0]
#[kani::proof]
#[kani::unwind(6)]
pub fn c08_vector_full() {
    const N: usize = 3;
    let v0 = anyv::<N>();
    let scale = anyv::<N>();
    let c = any_cscale();
    let cm = c.unwrap_or(F::one());
    // right length
    let data = anyv::<N>();
    let mut v = v0;
    assert!(data[..].update_vector(&mut v, &scale, c).is_ok(), "full_vector_of_right_length_accepted");
    let mut i = 0;
    while i < N {
        assert!(v[i] == data[i] * scale[i] * cm, "v_is_value_times_scale_times_c");
        i += 1;
    }
    // Vec form behaves the same
    let mut v2 = v0;
    assert!(data.to_vec().update_vector(&mut v2, &scale, c).is_ok());
    let mut i = 0;
    while i < N {
        assert!(v2[i] == v[i], "Vec_form_equals_slice_form");
        i += 1;
    }
    // wrong lengths: error and target untouched
    let mut w = v0;
    assert!(data[..2].update_vector(&mut w, &scale, c).is_err(), "short_vector_rejected");
    let long = anyv::<4>();
    assert!(long[..].update_vector(&mut w, &scale, c).is_err(), "long_vector_rejected");
    // empty forms: no-ops
    let e: [F; 0] = [];
    assert!(e.update_vector(&mut w, &scale, c).is_ok() && e[..].update_vector(&mut w, &scale, c).is_ok(), "empty_update_accepted");
    let mut i = 0;
    while i < N {
        assert!(w[i] == v0[i], "rejected_and_empty_updates_leave_the_vector_untouched");
        i += 1;
    }
    kani::cover!(c.is_some() && data[0].0 == 2 && scale[0].0 == 3, "with cost scaling");
    kani::cover!(c.is_none(), "without cost scaling");
}

/// index-value forms: Zip<Iter<usize>,Iter<T>> and (Vec<usize>, Vec<T>), arbitrary indices
#[kani::proof]
#[kani::unwind(6)]
pub fn c08_vector_partial() {
    const N: usize = 3;
    let v0 = anyv::<N>();
    let scale = anyv::<N>();
    let c = any_cscale();
    let cm = c.unwrap_or(F::one());
    let idx: [usize; 2] = kani::any();
    let vals = anyv::<2>();
    let mut v = v0;
    let r = (idx.to_vec(), vals.to_vec()).update_vector(&mut v, &scale, c);
    let all_ok = idx[0] < N && idx[1] < N;
    assert!(r.is_ok() == all_ok, "error_iff_some_index_out_of_range");
    if all_ok {
        let mut want = v0;
        want[idx[0]] = vals[0] * scale[idx[0]] * cm;
        want[idx[1]] = vals[1] * scale[idx[1]] * cm;
        let mut i = 0;
        while i < N {
            assert!(v[i] == want[i], "listed_entries_updated_others_untouched");
            i += 1;
        }
    }
    let mut v2 = v0;
    let r2 = std::iter::zip(idx.iter(), vals.iter()).update_vector(&mut v2, &scale, c);
    assert!(r2.is_ok() == r.is_ok());
    let mut i = 0;
    while i < N {
        assert!(v2[i] == v[i], "zip_form_equals_tuple_form");
        i += 1;
    }
    kani::cover!(all_ok && idx[0] == idx[1], "same index twice");
    kani::cover!(!all_ok && idx[0] < N, "second index out of range");
}

fn any_csc_fp<const M: usize, const N: usize, const NNZ: usize>() -> CscMatrix<F> {
    let (colptr, rowval) = any_pattern::<M, N, NNZ>();
    let mut nzval = vec![F::zero(); NNZ];
    let mut k = 0;
    while k < NNZ {
        nzval[k] = F::any();
        k += 1;
    }
    CscMatrix { m: M, n: N, colptr, rowval, nzval }
}

/// whole-matrix forms: [T] / Vec<T> of values, CscMatrix with matching pattern
#[kani::proof]
#[kani::unwind(26)] // check_equal_sparsity compares colptr/rowval with == (memcmp over 24 bytes)
pub fn c08_matrix_full() {
    const M: usize = 3;
    const N: usize = 2;
    const NNZ: usize = 3;
    let M0 = any_csc_fp::<M, N, NNZ>();
    let l = anyv::<M>();
    let r = anyv::<N>();
    let c = any_cscale();
    let cm = c.unwrap_or(F::one());
    let data = anyv::<NNZ>();
    let mut A = M0.clone();
    assert!(data[..].update_matrix(&mut A, &l, &r, c).is_ok(), "values_of_right_length_accepted");
    assert!(same_pattern(&A, &M0), "pattern_unchanged");
    let mut k = 0;
    while k < NNZ {
        let (row, col) = (M0.rowval[k], col_of(&M0.colptr, k));
        assert!(A.nzval[k] == l[row] * r[col] * cm * data[k], "entry_is_l_row_times_r_col_times_c_times_value");
        k += 1;
    }
    // wrong length / empty
    let mut B = M0.clone();
    assert!(data[..2].update_matrix(&mut B, &l, &r, c).is_err(), "wrong_length_rejected");
    let e: [F; 0] = [];
    assert!(e.update_matrix(&mut B, &l, &r, c).is_ok() && e[..].update_matrix(&mut B, &l, &r, c).is_ok(), "empty_update_accepted");
    assert!(csc_eq(&B, &M0), "rejected_and_empty_updates_leave_the_matrix_untouched");
    // CscMatrix form: same pattern accepted, different pattern rejected without touching the target
    let mut src = M0.clone();
    src.nzval.copy_from_slice(&data);
    let mut C = M0.clone();
    assert!(src.update_matrix(&mut C, &l, &r, c).is_ok(), "matrix_with_equal_pattern_accepted");
    assert!(csc_eq(&C, &A), "matrix_form_equals_value_form");
    let other = any_csc_fp::<M, N, NNZ>();
    let mut D = M0.clone();
    let res = other.update_matrix(&mut D, &l, &r, c);
    if !same_pattern(&other, &M0) {
        assert!(res.is_err(), "pattern_mismatch_rejected");
        assert!(csc_eq(&D, &M0), "pattern_mismatch_leaves_target_untouched");
    } else {
        assert!(res.is_ok());
    }
    kani::cover!(!same_pattern(&other, &M0), "pattern mismatch");
    kani::cover!(c.is_some() && M0.colptr[1] == 0, "empty first column, cost scaling");
}

/// index-value matrix updates: the coordinate of a linear index (partition_point over colptr), incl. empty columns
#[kani::proof]
#[kani::unwind(7)]
pub fn c08_matrix_partial() {
    const M: usize = 2;
    const N: usize = 3;
    const NNZ: usize = 3;
    let M0 = any_csc_fp::<M, N, NNZ>();
    let l = anyv::<M>();
    let r = anyv::<N>();
    let c = any_cscale();
    let cm = c.unwrap_or(F::one());
    let idx: [usize; 2] = kani::any();
    let vals = anyv::<2>();
    let mut A = M0.clone();
    let res = (idx.to_vec(), vals.to_vec()).update_matrix(&mut A, &l, &r, c);
    let all_ok = idx[0] < NNZ && idx[1] < NNZ;
    assert!(res.is_ok() == all_ok, "error_iff_some_index_out_of_range");
    assert!(same_pattern(&A, &M0), "pattern_unchanged");
    if all_ok {
        let mut want = [F::zero(); NNZ];
        let mut k = 0;
        while k < NNZ {
            want[k] = M0.nzval[k];
            k += 1;
        }
        let mut j = 0;
        while j < 2 {
            let k = idx[j];
            let (row, col) = (M0.rowval[k], col_of(&M0.colptr, k));
            want[k] = l[row] * r[col] * cm * vals[j];
            j += 1;
        }
        let mut k = 0;
        while k < NNZ {
            assert!(A.nzval[k] == want[k], "listed_entries_scaled_by_their_true_row_and_column");
            k += 1;
        }
    }
    kani::cover!(all_ok && M0.colptr[1] == 0 && M0.colptr[2] == 1, "empty first column");
    kani::cover!(all_ok && M0.colptr[2] == NNZ, "empty last column");
}

/// cached norms of q and b are recomputed after an update clears them: ||q o dinv||_inf / c and ||b o einv||_inf
#[kani::proof]
#[kani::unwind(5)]
pub fn c08_norm_cache() {
    let P = CscMatrix::<f64>::zeros((2, 2));
    let A = CscMatrix::<f64>::zeros((2, 2));
    let q0 = [small_f64(9), small_f64(9)];
    let b0 = [small_f64(9), small_f64(9)];
    let cones = [SupportedConeT::NonnegativeConeT(2)];
    let mut st = settings_f64();
    st.presolve_enable = false;
    let mut data = DefaultProblemData::<f64>::new(&P, &q0, &A, &b0, &cones, &st);
    let absmax = |a: f64, b: f64| if a.abs() > b.abs() { a.abs() } else { b.abs() };
    assert!(dh::data_get_normq(&mut data) == absmax(q0[0], q0[1]), "initial_normq_is_inf_norm_of_user_q");
    assert!(dh::data_get_normb(&mut data) == absmax(b0[0], b0[1]), "initial_normb_is_inf_norm_of_user_b");
    // equilibration with powers of two, then new (internally scaled) data as update_q/update_b write it
    let pow2 = |k: u8| match k % 4 {
        0 => 0.5,
        1 => 1.0,
        2 => 2.0,
        _ => 4.0,
    };
    let (d0, d1, e0, e1, c) = (pow2(kani::any()), pow2(kani::any()), pow2(kani::any()), pow2(kani::any()), pow2(kani::any()));
    data.equilibration.d.copy_from_slice(&[d0, d1]);
    data.equilibration.dinv.copy_from_slice(&[1.0 / d0, 1.0 / d1]);
    data.equilibration.e.copy_from_slice(&[e0, e1]);
    data.equilibration.einv.copy_from_slice(&[1.0 / e0, 1.0 / e1]);
    data.equilibration.c = c;
    let q1 = [small_f64(9), small_f64(9)];
    let b1 = [small_f64(9), small_f64(9)];
    let dvec = [d0, d1];
    let evec = [e0, e1];
    assert!(q1[..].update_vector(&mut data.q, &dvec, Some(c)).is_ok());
    assert!(b1[..].update_vector(&mut data.b, &evec, None).is_ok());
    // without clearing, the stale cached value is still returned (that is why update_q/b clear it)
    assert!(dh::data_get_normq(&mut data) == absmax(q0[0], q0[1]));
    dh::data_clear_normq(&mut data);
    dh::data_clear_normb(&mut data);
    assert!(dh::data_get_normq(&mut data) == absmax(q1[0], q1[1]), "recomputed_normq_is_inf_norm_of_the_new_unscaled_q");
    assert!(dh::data_get_normb(&mut data) == absmax(b1[0], b1[1]), "recomputed_normb_is_inf_norm_of_the_new_unscaled_b");
    kani::cover!(d0 == 4.0 && c == 0.5 && q1[0] == -3.0);
}
