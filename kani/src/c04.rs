//! C04 — every solve terminates cleanly within its limits.
//!
//! c04_loop_*: the REAL generic `Solver::solve` main loop (core/solver.rs, including default_start,
//! get_step_length, backtrack_step_to_barrier and all four strategy checkpoints) instantiated with
//! stub components whose numeric results are arbitrary (`kani::any()`), and an Info component that
//! delegates the verdict logic to the REAL DefaultInfo.  This is an inductive argument over *all*
//! numerical behaviours of the components: whatever KKT solves, step lengths, residuals and clock
//! readings occur, the loop returns, with a terminal status, within max_iter iterations and
//! max_iter+2 passes, and stops at the first check after the time limit is exceeded.
use crate::gen::*;
use clarabel::solver::implementations::default::verif_hooks as dh;
use clarabel::solver::traits::*;
use clarabel::solver::*;
use clarabel::timers::Timers;
use clarabel::verif_hooks::cones::{Cone, PrimalOrDualCone};
use clarabel::verif_hooks::core::{ScalingStrategy, Solver, StepDirection};
use clarabel::algebra::CscMatrix;

/// Settings as seen by the generic solver: `core()` hands out a copy whose `max_iter` is POISONED (an
/// arbitrary value unrelated to the real budget); only the termination check (and post-processing)
/// receive the real settings.  If anything in the main loop other than the termination check read
/// the iteration budget, its behaviour would follow the poison and break the assertions below
/// (C07: the k-th iterate does not depend on the budget).
pub struct SSet {
    real: DefaultSettings<f64>,
    poisoned: DefaultSettings<f64>,
}
impl Settings<f64> for SSet {
    fn core(&self) -> &CoreSettings<f64> {
        &self.poisoned
    }
    fn core_mut(&mut self) -> &mut CoreSettings<f64> {
        &mut self.poisoned
    }
}

pub struct SD;
pub struct SV;
pub struct SR;
pub struct SK;
pub struct SS;
pub struct SC {
    symmetric: bool,
    pd_scaling: bool,
}
pub struct SI {
    real: DefaultInfo<f64>,
    res: DefaultResiduals<f64>,
    dummy_v: DefaultVariables<f64>,
    dummy_p: DefaultVariables<f64>,
    sink: std::io::Sink,
    // ghost state for the oracle
    checks: u32,
    entered_not_unsolved: bool,
    overtime_seen: bool,
    checks_after_overtime: u32,
    time_limit: f64,
    time_went_backwards: bool,
}

impl ProblemData<f64> for SD {
    type V = SV;
    type C = SC;
    type SE = SSet;
    fn equilibrate(&mut self, _c: &SC, _s: &SSet) {}
}

static mut BARRIER_CALLS: u32 = 0;
static mut LAST_BARRIER_ALPHA: u64 = 0; // bits of the step length last evaluated by the barrier
static mut LAST_BARRIER_OK: bool = false;
static mut BARRIER_EVER: bool = false;
static mut STEP_NOT_BARRIER_CHECKED: bool = false;
static mut NEEDS_BARRIER: bool = false; // nonsymmetric cones (a Dual-scaling combined step must pass the barrier test)

impl Variables<f64> for SV {
    type D = SD;
    type R = SR;
    type C = SC;
    type SE = SSet;
    fn calc_mu(&mut self, _r: &SR, _c: &SC) -> f64 {
        kani::any()
    }
    fn affine_step_rhs(&mut self, _r: &SR, _v: &Self, _c: &SC) {}
    fn combined_step_rhs(&mut self, _r: &SR, _v: &Self, _c: &mut SC, _s: &mut Self, _σ: f64, _μ: f64, _m: f64) {}
    fn calc_step_length(&self, _s: &Self, _c: &mut SC, _se: &SSet, _d: StepDirection) -> f64 {
        kani::any()
    }
    fn add_step(&mut self, _s: &Self, α: f64) {
        // ghost: once the dual-scaling strategy is in force (which is when the barrier is first consulted)
        // every step that is taken must be the one last accepted by the barrier test
        unsafe {
            if NEEDS_BARRIER && BARRIER_EVER && !(LAST_BARRIER_OK && LAST_BARRIER_ALPHA == α.to_bits()) {
                STEP_NOT_BARRIER_CHECKED = true;
            }
        }
    }
    fn symmetric_initialization(&mut self, _c: &mut SC) {}
    fn unit_initialization(&mut self, _c: &SC) {}
    fn copy_from(&mut self, _s: &Self) {}
    fn scale_cones(&self, _c: &mut SC, _μ: f64, _s: ScalingStrategy) -> bool {
        kani::any()
    }
    fn barrier(&self, _s: &Self, α: f64, _c: &mut SC) -> f64 {
        // arbitrary barrier value, but accepted (< 1) at the latest on the 3rd evaluation of a search:
        // the 50-step bound of backtrack_step_to_barrier is a literal of the code, cut here to 3
        let v: f64 = unsafe {
            BARRIER_CALLS += 1;
            if BARRIER_CALLS % 3 == 0 {
                0.0
            } else {
                kani::any()
            }
        };
        unsafe {
            BARRIER_EVER = true;
            LAST_BARRIER_ALPHA = α.to_bits();
            LAST_BARRIER_OK = v < 1.0;
        }
        v
    }
    fn rescale(&mut self) {}
}

impl Residuals<f64> for SR {
    type D = SD;
    type V = SV;
    fn update(&mut self, _v: &SV, _d: &SD) {}
}

impl KKTSystem<f64> for SK {
    type D = SD;
    type V = SV;
    type C = SC;
    type SE = SSet;
    fn update(&mut self, _d: &SD, _c: &SC, _s: &SSet) -> bool {
        kani::any()
    }
    fn solve(&mut self, _l: &mut SV, _r: &SV, _d: &SD, _v: &SV, _c: &mut SC, _sd: StepDirection, _s: &SSet) -> bool {
        kani::any()
    }
    fn solve_initial_point(&mut self, _v: &mut SV, _d: &SD, _s: &SSet) -> bool {
        kani::any()
    }
}

impl Cone<f64> for SC {
    fn degree(&self) -> usize {
        1
    }
    fn numel(&self) -> usize {
        1
    }
    fn is_sparse_expandable(&self) -> bool {
        false
    }
    fn is_symmetric(&self) -> bool {
        self.symmetric
    }
    fn allows_primal_dual_scaling(&self) -> bool {
        self.pd_scaling
    }
    fn rectify_equilibration(&self, _δ: &mut [f64], _e: &[f64]) -> bool {
        false
    }
    fn margins(&mut self, _z: &mut [f64], _pd: PrimalOrDualCone) -> (f64, f64) {
        (0.0, 0.0)
    }
    fn scaled_unit_shift(&self, _z: &mut [f64], _α: f64, _pd: PrimalOrDualCone) {}
    fn unit_initialization(&self, _z: &mut [f64], _s: &mut [f64]) {}
    fn set_identity_scaling(&mut self) {}
    fn update_scaling(&mut self, _s: &[f64], _z: &[f64], _μ: f64, _st: ScalingStrategy) -> bool {
        true
    }
    fn Hs_is_diagonal(&self) -> bool {
        true
    }
    fn get_Hs(&self, _h: &mut [f64]) {}
    fn mul_Hs(&mut self, _y: &mut [f64], _x: &[f64], _w: &mut [f64]) {}
    fn affine_ds(&self, _ds: &mut [f64], _s: &[f64]) {}
    fn combined_ds_shift(&mut self, _shift: &mut [f64], _step_z: &mut [f64], _step_s: &mut [f64], _σμ: f64) {}
    fn Δs_from_Δz_offset(&mut self, _out: &mut [f64], _ds: &[f64], _work: &mut [f64], _z: &[f64]) {}
    fn step_length(&mut self, _dz: &[f64], _ds: &[f64], _z: &[f64], _s: &[f64], _settings: &CoreSettings<f64>, _αmax: f64) -> (f64, f64) {
        (0.0, 0.0)
    }
    fn compute_barrier(&mut self, _z: &[f64], _s: &[f64], _dz: &[f64], _ds: &[f64], _α: f64) -> f64 {
        0.0
    }
}

impl InfoPrint<f64> for SI {
    type D = SD;
    type C = SC;
    type SE = SSet;
    fn print_target(&mut self) -> &mut dyn std::io::Write {
        &mut self.sink
    }
    fn print_configuration(&mut self, _s: &SSet, _d: &SD, _c: &SC) -> std::io::Result<()> {
        Ok(())
    }
    fn print_status_header(&mut self, _s: &SSet) -> std::io::Result<()> {
        Ok(())
    }
    fn print_status(&mut self, _s: &SSet) -> std::io::Result<()> {
        Ok(())
    }
    fn print_footer(&mut self, _s: &SSet) -> std::io::Result<()> {
        Ok(())
    }
}

impl Info<f64> for SI {
    type V = SV;
    type R = SR;
    fn reset(&mut self, timers: &mut Timers) {
        self.real.reset(timers); // REAL
    }
    fn post_process(&mut self, _r: &SR, s: &SSet) {
        self.real.post_process(&self.res, &s.real); // REAL
    }
    fn finalize(&mut self, _t: &mut Timers) {}
    fn update(&mut self, _d: &mut SD, _v: &SV, _r: &SR, _t: &Timers) {
        // arbitrary residuals / gaps / costs / kappa-tau ratio; the clock is an arbitrary non-decreasing reading
        let i = &mut self.real;
        i.cost_primal = kani::any();
        i.cost_dual = kani::any();
        i.res_primal = kani::any();
        i.res_dual = kani::any();
        i.res_primal_inf = kani::any();
        i.res_dual_inf = kani::any();
        i.gap_abs = kani::any();
        i.gap_rel = kani::any();
        i.ktratio = kani::any();
        // as DefaultInfo::update does: solve_time = timers.total_time() (model: the flushed time)
        i.solve_time = unsafe { FLUSHED } as f64;
        let sc: [f64; 5] = kani::any();
        dh::residuals_set_scalars(&mut self.res, sc);
    }
    fn check_termination(&mut self, _r: &SR, s: &SSet, iter: u32) -> bool {
        if self.real.status != SolverStatus::Unsolved {
            self.entered_not_unsolved = true;
        }
        if self.overtime_seen {
            self.checks_after_overtime += 1;
        }
        self.checks += 1;
        let r = self.real.check_termination(&self.res, &s.real, iter); // REAL
        // the limit is exceeded on the user's stopwatch (not only on the possibly stale reported time)
        if (true_elapsed() as f64) > self.time_limit {
            self.overtime_seen = true;
        }
        r
    }
    fn save_prev_iterate(&mut self, _v: &SV, _p: &mut SV) {
        self.real.save_prev_iterate(&self.dummy_v, &mut self.dummy_p); // REAL
    }
    fn reset_to_prev_iterate(&mut self, _v: &mut SV, _p: &SV) {
        self.real.reset_to_prev_iterate(&mut self.dummy_v, &self.dummy_p); // REAL
    }
    fn save_scalars(&mut self, μ: f64, α: f64, σ: f64, iter: u32) {
        self.real.save_scalars(μ, α, σ, iter); // REAL
    }
    fn get_status(&self) -> SolverStatus {
        self.real.get_status() // REAL
    }
    fn set_status(&mut self, status: SolverStatus) {
        self.real.set_status(status); // REAL
    }
}

impl Solution<f64> for SS {
    type D = SD;
    type V = SV;
    type I = SI;
    type SE = SSet;
    fn post_process(&mut self, _d: &SD, _v: &mut SV, _i: &SI, _s: &SSet) {}
    fn finalize(&mut self, _i: &SI) {}
}

// ---- environment model: the wall clock and the timer registry ---------------------------------
// The real `Timers` is a tree of HashMaps of `Instant`s (not executable by the model checker).  It is
// replaced by a model of its documented behaviour for the top-level "solve" timer:
//   * the clock NOW is an arbitrary non-decreasing reading (every timer call may advance it),
//   * elapsed time of a running timer is accumulated only when it is stopped or SUSPENDED
//     (`suspend` adds now-start to `elapsed`, `resume` restarts from now),
//   * `total_time()` reports the accumulated (flushed) time only.
// So the solve time the termination check sees is the time flushed at the last suspend/stop, and the
// main loop has to pause the timers (notimeit!) once per iteration for time limits to work at all.
static mut NOW: u64 = 0; // ghost wall clock (ticks)
static mut START: u64 = 0; // start of the currently running interval of the "solve" timer
static mut FLUSHED: u64 = 0; // accumulated elapsed time visible through total_time()
static mut DEPTH: u32 = 0;

fn tick() {
    unsafe {
        let dt: u32 = kani::any();
        NOW += dt as u64;
    }
}
pub fn stub_start(_t: &mut Timers, _k: &'static str) {
    tick();
    unsafe {
        if DEPTH == 0 {
            START = NOW;
        }
        DEPTH += 1;
    }
}
pub fn stub_stop(_t: &mut Timers) {
    tick();
    unsafe {
        DEPTH -= 1;
        if DEPTH == 0 {
            FLUSHED += NOW - START;
        }
    }
}
pub fn stub_suspend(_t: &mut Timers) {
    tick();
    unsafe {
        if DEPTH > 0 {
            FLUSHED += NOW - START;
        }
    }
}
pub fn stub_resume(_t: &mut Timers) {
    tick();
    unsafe {
        if DEPTH > 0 {
            START = NOW;
        }
    }
}
pub fn stub_reset(_t: &mut Timers, _k: &'static str) {}
pub fn stub_total_time(_t: &Timers) -> std::time::Duration {
    std::time::Duration::ZERO // not used: the stub Info::update reads the model's FLUSHED directly
}
/// true elapsed time of the solve so far (what a stopwatch held by the user would show)
fn true_elapsed() -> u64 {
    unsafe {
        if DEPTH > 0 {
            FLUSHED + (NOW - START)
        } else {
            FLUSHED
        }
    }
}
pub fn stub_random_state() -> std::collections::hash_map::RandomState {
    // fixed keys: only so that the (never used) HashMap inside Timers::default() can be built
    unsafe { std::mem::transmute::<[u64; 2], std::collections::hash_map::RandomState>([1, 2]) }
}

fn run_loop(max_iter_bound: u32, symmetric: bool, pd_scaling: bool) {
    let mut settings = crate::verdict::any_settings();
    kani::assume(settings.max_iter <= max_iter_bound);
    settings.min_switch_step_length = kani::any();
    settings.min_terminate_step_length = kani::any();
    settings.linesearch_backtrack_step = kani::any();
    settings.verbose = false;
    let time_limit = settings.time_limit;
    let max_iter = settings.max_iter;
    let mut poisoned = settings.clone();
    poisoned.max_iter = kani::any();
    let settings = SSet { real: settings, poisoned };
    unsafe {
        NEEDS_BARRIER = !symmetric;
    }
    let mut real = dh::info_new_sink::<f64>();
    real.status = crate::verdict::any_status(); // whatever a previous solve left behind
    real.iterations = kani::any();
    let info = SI {
        real,
        res: DefaultResiduals::<f64>::new(0, 0),
        dummy_v: DefaultVariables::<f64>::new(0, 0),
        dummy_p: DefaultVariables::<f64>::new(0, 0),
        sink: std::io::sink(),
        checks: 0,
        entered_not_unsolved: false,
        overtime_seen: false,
        checks_after_overtime: 0,
        time_limit,
        time_went_backwards: false,
    };
    let mut solver = Solver {
        data: SD,
        variables: SV,
        residuals: SR,
        kktsystem: SK,
        cones: SC { symmetric, pd_scaling },
        step_lhs: SV,
        step_rhs: SV,
        prev_vars: SV,
        info,
        solution: SS,
        settings,
        timers: Some(Timers::default()),
    };
    solver.solve(); // REAL generic main loop
    let i = &solver.info;
    let st = i.real.status;
    assert!(st != SolverStatus::Unsolved, "solve_ends_in_a_terminal_status");
    assert!(i.real.iterations <= max_iter, "reported_iterations_never_exceed_max_iter");
    assert!(i.checks <= max_iter + 2, "at_most_max_iter_plus_two_passes_(one_strategy_switch)");
    assert!(!i.entered_not_unsolved, "every_termination_check_starts_from_status_Unsolved");
    // the reported time lags the stopwatch by at most one iteration (it is flushed when the timers are
    // paused for printing), and one more pass is possible through the scaling-strategy switch
    assert!(i.checks_after_overtime <= 2, "after_the_time_limit_is_exceeded_at_most_two_more_passes");
    if i.checks_after_overtime == 2 {
        assert!(!symmetric && pd_scaling, "a_second_pass_after_the_time_limit_only_through_the_scaling_strategy_switch");
    }
    assert!(solver.timers.is_some(), "timers_returned_to_the_solver");
    assert!(unsafe { !STEP_NOT_BARRIER_CHECKED }, "under_dual_scaling_every_step_taken_was_accepted_by_the_barrier_test_(independent_of_the_budget)");
    kani::cover!(st == SolverStatus::MaxIterations, "MaxIterations");
    kani::cover!(st == SolverStatus::Solved, "Solved");
    kani::cover!(st == SolverStatus::NumericalError, "NumericalError");
    kani::cover!(st == SolverStatus::MaxTime, "MaxTime");
    kani::cover!(st == SolverStatus::AlmostSolved, "AlmostSolved");
    kani::cover!(i.checks == max_iter + 1 && max_iter == max_iter_bound, "max_iter + 1 passes");
    kani::cover!(i.checks == max_iter + 2 || symmetric || !pd_scaling, "opt: max_iter + 2 passes (strategy switch)");
}

macro_rules! loop_harness {
    ($name:ident, $mi:expr, $sym:expr, $pd:expr, $unwind:expr) => {
        #[kani::proof]
        #[kani::unwind($unwind)]
        #[kani::stub(clarabel::timers::Timers::start_as_current, stub_start)]
        #[kani::stub(clarabel::timers::Timers::reset_timer, stub_reset)]
        #[kani::stub(clarabel::timers::Timers::stop_current, stub_stop)]
        #[kani::stub(clarabel::timers::Timers::suspend, stub_suspend)]
        #[kani::stub(clarabel::timers::Timers::resume, stub_resume)]
        #[kani::stub(clarabel::timers::Timers::total_time, stub_total_time)]
        #[kani::stub(std::collections::hash_map::RandomState::new, stub_random_state)]
        pub fn $name() {
            run_loop($mi, $sym, $pd);
        }
    };
}
loop_harness!(c04_loop_sym_mi2, 2, true, true, 6);
loop_harness!(c04_loop_asym_pd_mi2, 2, false, true, 6);
loop_harness!(c04_loop_asym_dual_mi1, 1, false, false, 5);
loop_harness!(c04_loop_sym_mi4, 4, true, true, 8);
loop_harness!(c04_loop_asym_pd_mi3, 3, false, true, 7);
