//! C17 — chordal analysis: the hash-free units (union-find, Kruskal spanning tree on the clique
//! graph, graph connection / parent extraction).  Everything built on IndexSet/HashMap is out of
//! reach of the model checker (DESIGN.md) and outside the claim.
use crate::gen::*;
use clarabel::algebra::*;
use clarabel::verif_hooks::chordal as ch;

/// reference connectivity: component labels, relabelled on every union
struct RefSets<const N: usize> {
    label: [usize; N],
}
impl<const N: usize> RefSets<N> {
    fn new() -> Self {
        let mut label = [0usize; N];
        let mut i = 0;
        while i < N {
            label[i] = i;
            i += 1;
        }
        Self { label }
    }
    fn union(&mut self, x: usize, y: usize) {
        let (lx, ly) = (self.label[x], self.label[y]);
        let mut i = 0;
        while i < N {
            if self.label[i] == ly {
                self.label[i] = lx;
            }
            i += 1;
        }
    }
    fn same(&self, x: usize, y: usize) -> bool {
        self.label[x] == self.label[y]
    }
}

fn dsu_n<const N: usize, const K: usize>() {
    let mut d = ch::VDsu::new(N);
    let mut r = RefSets::<N>::new();
    let mut k = 0;
    while k < K {
        let x: usize = kani::any();
        let y: usize = kani::any();
        kani::assume(x < N && y < N);
        d.union(x, y);
        r.union(x, y);
        k += 1;
    }
    let x: usize = kani::any();
    let y: usize = kani::any();
    kani::assume(x < N && y < N);
    let same = d.in_same_set(x, y);
    assert!(same == r.same(x, y), "in_same_set_iff_connected_by_the_unions_made");
    // root is a fixed point of the parent map and is shared by connected elements
    let rx = d.root(x);
    assert!(rx < N && d.parents()[rx] == rx, "root_returns_a_root");
    kani::cover!(same && x != y, "two distinct elements connected");
    kani::cover!(!same, "two elements not connected");
}

/// 5 elements, any 4 unions, any query (history based; small)
#[kani::proof]
#[kani::unwind(8)]
pub fn c17_dsu_n5_u4() {
    dsu_n::<5, 4>();
}

// ---- inductive formulation: one operation from an ARBITRARY valid state ------------------------
// Representation invariant of union by rank (with or without path compression):
//   (I1) parents[i] < n
//   (I2) ranks strictly increase along parent pointers  (=> acyclic, depth <= max rank)
//   (I3) a ROOT of rank r has at least 2^r nodes in its tree (=> rank <= log2 n)
// Every state produced by a history of unions satisfies it; with 8 elements it admits the depth-3
// tree that 7 unions build, which no bound of "<= 7 elements" can reach.

const NI: usize = 8;

fn true_root(parents: &[usize], x: usize) -> usize {
    let mut r = x;
    let mut k = 0;
    while k < 4 {
        r = parents[r];
        k += 1;
    }
    r
}

fn invariant(parents: &[usize], ranks: &[usize]) -> bool {
    let mut ok = true;
    let mut size = [0usize; NI];
    let mut i = 0;
    while i < NI {
        if parents[i] >= NI || ranks[i] > 3 {
            return false;
        }
        i += 1;
    }
    let mut i = 0;
    while i < NI {
        if parents[i] != i && ranks[parents[i]] <= ranks[i] {
            ok = false;
        }
        i += 1;
    }
    if !ok {
        return false;
    }
    // subtree sizes: node i counts once for each of its ancestors (depth <= 3 by I2) and itself
    let mut i = 0;
    while i < NI {
        let mut a = i;
        let mut k = 0;
        while k < 4 {
            size[a] += 1;
            if parents[a] == a {
                break;
            }
            a = parents[a];
            k += 1;
        }
        i += 1;
    }
    // (I3) for ROOTS only: path compression (inside every root() call) moves nodes out of the subtrees of
    // intermediate nodes, so the size bound is an invariant of root nodes only - which is all that is
    // needed to bound ranks (a non-root's rank is below its root's) and hence depths
    let mut i = 0;
    while i < NI {
        if parents[i] == i && size[i] < (1usize << ranks[i]) {
            return false;
        }
        i += 1;
    }
    true
}

fn any_state() -> (Vec<usize>, Vec<usize>) {
    let p: [usize; NI] = kani::any();
    let r: [usize; NI] = kani::any();
    kani::assume(invariant(&p, &r));
    (p.to_vec(), r.to_vec())
}

/// query step: from any valid state, in_same_set(x,y) <=> x and y have the same true root
#[kani::proof]
#[kani::unwind(10)]
pub fn c17_dsu_query_inductive_n8() {
    let (p, r) = any_state();
    let x: usize = kani::any();
    let y: usize = kani::any();
    kani::assume(x < NI && y < NI);
    let same_ref = true_root(&p, x) == true_root(&p, y);
    let depth3 = p[x] != x && p[p[x]] != p[x] && p[p[p[x]]] != p[p[x]];
    let mut d = ch::VDsu::from_parts(p.clone(), r);
    let same = d.in_same_set(x, y);
    assert!(same == same_ref, "in_same_set_iff_same_component");
    // path compression keeps the partition
    let q = d.parents();
    let mut i = 0;
    while i < NI {
        assert!(true_root(q, i) == true_root(&p, i), "path_compression_keeps_every_root");
        i += 1;
    }
    kani::cover!(depth3, "element at depth 3 (needs 8 elements)");
    kani::cover!(same && x != y, "two distinct connected elements");
}

/// the same invariant / roots for a smaller universe (N <= NI): elements >= N are isolated singletons of the
/// 8-element model, so every N-element state embeds into it
fn any_state_n<const N: usize>() -> (Vec<usize>, Vec<usize>) {
    let mut p: [usize; NI] = kani::any();
    let mut r: [usize; NI] = kani::any();
    let mut i = N;
    while i < NI {
        p[i] = i;
        r[i] = 0;
        i += 1;
    }
    let mut i = 0;
    while i < N {
        kani::assume(p[i] < N);
        i += 1;
    }
    kani::assume(invariant(&p, &r));
    (p[..N].to_vec(), r[..N].to_vec())
}

fn pad(v: &[usize], fill_identity: bool) -> [usize; NI] {
    let mut out = [0usize; NI];
    let mut i = 0;
    while i < NI {
        out[i] = if i < v.len() { v[i] } else if fill_identity { i } else { 0 };
        i += 1;
    }
    out
}

/// union step: from any valid state, union(x,y) merges exactly the two components and keeps the invariant
fn union_inductive<const N: usize>() {
    let (p, r) = any_state_n::<N>();
    let x: usize = kani::any();
    let y: usize = kani::any();
    kani::assume(x < N && y < N);
    let (rx, ry) = (true_root(&p, x), true_root(&p, y));
    let mut d = ch::VDsu::from_parts(p.clone(), r.clone());
    d.union(x, y);
    let q = d.parents().to_vec();
    let rk = d.ranks().to_vec();
    // new partition = old partition with the components of x and y merged, stated for an ARBITRARY pair
    // (i, j) - the solver covers all pairs; roots are computed once per element
    let mut before = [0usize; NI];
    let mut after = [0usize; NI];
    let mut i = 0;
    while i < N {
        before[i] = true_root(&p, i);
        after[i] = true_root(&q, i);
        i += 1;
    }
    let i: usize = kani::any();
    let j: usize = kani::any();
    kani::assume(i < N && j < N);
    let (ri, rj) = (before[i], before[j]);
    let was = ri == rj;
    let merged = (ri == rx || ri == ry) && (rj == rx || rj == ry);
    assert!((after[i] == after[j]) == (was || merged), "union_merges_exactly_the_two_components");
    // (two rank-3 roots cannot both exist among 8 elements, so the result always fits rank <= 3)
    assert!(invariant(&pad(&q, true), &pad(&rk, false)), "union_preserves_the_representation_invariant");
    // N = 8: equal-rank union creating a rank-3 root; N = 6: rank-1 set joined to a rank-2 set through a non-root member
    let characteristic = if N == NI { rx != ry && r[rx] == r[ry] && r[rx] == 2 } else { rx != ry && r[rx] == 2 && r[ry] == 1 && y != ry };
    kani::cover!(characteristic, "characteristic union for this size reached");
    kani::cover!(rx == ry && x != y, "already connected");
}

#[kani::proof]
#[kani::unwind(10)]
pub fn c17_dsu_union_inductive_n8() {
    union_inductive::<8>();
}

#[kani::proof]
#[kani::unwind(10)]
pub fn c17_dsu_union_inductive_n6() {
    union_inductive::<6>();
}

/// Kruskal on weighted clique graphs: the edges marked -1 form a spanning forest that connects
/// exactly what the graph connects.  Edge *sets* are enumerated (kruskal's findnz grows a Vec with a
/// data-dependent length, which CBMC needs concrete); edge weights are symbolic.
fn kruskal_masks<const N: usize>(masks: &[u32]) {
    for &mask in masks {
        // strictly upper triangular pattern from the mask (column-major over i<j)
        let mut colptr = vec![0usize; N + 1];
        let mut rowval = Vec::new();
        let mut bit = 0;
        let mut j = 0;
        while j < N {
            let mut i = 0;
            while i < j {
                if (mask >> bit) & 1 == 1 {
                    rowval.push(i);
                }
                bit += 1;
                i += 1;
            }
            colptr[j + 1] = rowval.len();
            j += 1;
        }
        let nnz = rowval.len();
        let mut w = vec![0isize; nnz];
        let mut k = 0;
        while k < nnz {
            let v: isize = kani::any();
            kani::assume(v >= 0 && v <= 5);
            w[k] = v;
            k += 1;
        }
        let mut E = CscMatrix::<isize> { m: N, n: N, colptr, rowval, nzval: w.clone() };
        let mut all = RefSets::<N>::new();
        let mut k = 0;
        while k < nnz {
            all.union(E.rowval[k], col_of(&E.colptr, k));
            k += 1;
        }
        let mut ncomp = 0;
        let mut i = 0;
        while i < N {
            if all.label[i] == i {
                ncomp += 1;
            }
            i += 1;
        }
        ch::kruskal(&mut E, N);
        let mut tree = RefSets::<N>::new();
        let mut nmarked = 0;
        let mut k = 0;
        while k < nnz {
            if E.nzval[k] == -1 {
                let (a, b) = (E.rowval[k], col_of(&E.colptr, k));
                assert!(!tree.same(a, b), "marked_edges_form_no_cycle");
                tree.union(a, b);
                nmarked += 1;
            } else {
                assert!(E.nzval[k] == w[k], "unmarked_edges_keep_their_weight");
            }
            k += 1;
        }
        assert!(nmarked == N - ncomp, "spanning_forest_has_n_minus_components_edges");
        let mut i = 0;
        while i < N {
            let mut j = 0;
            while j < N {
                assert!(tree.same(i, j) == all.same(i, j), "forest_connects_exactly_the_graph_components");
                j += 1;
            }
            i += 1;
        }
    }
    kani::cover!(true, "all edge sets visited");
}

#[kani::proof]
#[kani::unwind(9)]
pub fn c17_kruskal_n4_a() {
    // complete graph, a 4-cycle, a path
    kruskal_masks::<4>(&[0b111111, 0b110011, 0b100101]);
}

#[kani::proof]
#[kani::unwind(9)]
pub fn c17_kruskal_n4_b() {
    // star, triangle + isolated vertex, two disjoint edges, single edge
    kruskal_masks::<4>(&[0b001011, 0b000111, 0b100001, 0b000001]);
}

/// aggregate sparsity mask of [A b]
#[kani::proof]
#[kani::unwind(7)]
pub fn c17_sparsity_mask() {
    let A = any_csc_f64::<4, 2, 3>(2);
    let mut b = [0f64; 4];
    let mut i = 0;
    while i < 4 {
        b[i] = small_f64(1);
        i += 1;
    }
    let m = ch::find_aggregate_sparsity_mask(&A, &b);
    assert!(m.len() == 4);
    let mut i = 0;
    while i < 4 {
        let mut hit = b[i] != 0.0;
        let mut k = 0;
        while k < 3 {
            if A.rowval[k] == i {
                hit = true;
            }
            k += 1;
        }
        assert!(m[i] == hit, "row_active_iff_structural_entry_in_A_or_nonzero_b");
        i += 1;
    }
    kani::cover!(!m[0] && m[3], "inactive and active rows");
}

/// connect_graph + parent_from_L on enumerated strictly-lower patterns of L (set_entry allocates)
fn connect_all<const N: usize>(nmasks: u32) {
    let mut mask = 0u32;
    while mask < nmasks {
        // L pattern: unit diagonal plus strictly lower entries from the mask (column-major)
        let mut colptr = vec![0usize; N + 1];
        let mut rowval = Vec::new();
        let mut bit = 0;
        let mut j = 0;
        while j < N {
            rowval.push(j);
            let mut i = j + 1;
            while i < N {
                if (mask >> bit) & 1 == 1 {
                    rowval.push(i);
                }
                bit += 1;
                i += 1;
            }
            colptr[j + 1] = rowval.len();
            j += 1;
        }
        let nnz = rowval.len();
        let mut L = CscMatrix::<f64> { m: N, n: N, colptr, rowval, nzval: vec![1.0; nnz] };
        let before = L.clone();
        ch::connect_graph(&mut L);
        assert!(is_canonical(&L), "connect_graph_keeps_canonical_form");
        let mut j = 0;
        while j + 1 < N {
            let mut below = false;
            let mut k = L.colptr[j];
            while k < L.colptr[j + 1] {
                if L.rowval[k] > j {
                    below = true;
                }
                k += 1;
            }
            assert!(below, "every_column_but_the_last_has_an_entry_below_the_diagonal");
            j += 1;
        }
        // original entries are kept
        let mut j = 0;
        while j < N {
            let mut k = before.colptr[j];
            while k < before.colptr[j + 1] {
                assert!(L.get_entry((before.rowval[k], j)).is_some(), "connect_graph_only_adds_entries");
                k += 1;
            }
            j += 1;
        }
        mask += 1;
    }
    kani::cover!(true, "all patterns visited");
}

#[kani::proof]
#[kani::unwind(12)]
pub fn c17_connect_graph_n3() {
    connect_all::<3>(8);
}
