//! C18 — chordal decomposition and reversal: the index kernels (triangular index maps,
//! sub-block maps, block indices, overlap counting).  The set/hash based assembly and the
//! LAPACK based completion are out of reach (DESIGN.md) and outside the claim.
use crate::fp::*;
use crate::gen::*;
use clarabel::algebra::verif_hooks as ah;
use clarabel::algebra::*;
use clarabel::verif_hooks::chordal as ch;
use num_traits::{One, Zero};

/// triangular index <-> coordinate maps are mutually inverse (isqrt goes through f64 sqrt)
fn tri_roundtrip(limit: usize) {
    let idx: usize = kani::any();
    kani::assume(idx < limit);
    let (r, c) = ah::upper_triangular_index_to_coord(idx);
    assert!(r <= c, "coordinate_is_in_the_upper_triangle");
    assert!(ah::coord_to_upper_triangular_index((r, c)) == idx, "coord_to_index_inverts_index_to_coord");
    assert!(ah::coord_to_upper_triangular_index((c, r)) == idx, "index_is_symmetric_in_the_coordinate");
    // packed column-major order of the upper triangle: idx = c(c+1)/2 + r
    assert!(idx == c * (c + 1) / 2 + r, "index_is_packed_upper_triangle_position");
    kani::cover!(idx == 5 && r == 2 && c == 2);
    kani::cover!(idx + 2 > limit);
}

#[kani::proof]
pub fn c18_tri_index_roundtrip_12bit() {
    tri_roundtrip(1 << 12);
}

#[kani::proof]
pub fn c18_tri_index_roundtrip_24bit() {
    tri_roundtrip(1 << 24);
}

#[kani::proof]
pub fn c18_tri_numbers() {
    let k: usize = kani::any();
    kani::assume(k < (1usize << 12));
    assert!(ah::triangular_number(k) == k * (k + 1) / 2, "triangular_number");
    assert!(ah::triangular_index(k) == ah::triangular_number(k + 1) - 1, "triangular_index");
    kani::cover!(k == 7);
}

/// add_subblock_map emits the svec positions of the clique's upper triangle in packed order
#[kani::proof]
#[kani::unwind(8)]
pub fn c18_subblock_map() {
    // strictly increasing clique vertex list of length 3, vertices < 8
    let v: [usize; 3] = kani::any();
    kani::assume(v[0] < v[1] && v[1] < v[2] && v[2] < 8);
    let start: usize = kani::any();
    kani::assume(start < 100);
    let mut out = Vec::with_capacity(8);
    out.push(77);
    ch::add_subblock_map(&mut out, &v, start);
    assert!(out.len() == 1 + 6 && out[0] == 77, "appends_one_index_per_upper_triangle_entry");
    let mut n = 1;
    let mut j = 0;
    while j < 3 {
        let mut i = 0;
        while i <= j {
            assert!(out[n] == start + v[j] * (v[j] + 1) / 2 + v[i], "entry_is_svec_position_of_(v_i,v_j)");
            n += 1;
            i += 1;
        }
        j += 1;
    }
    kani::cover!(v[0] == 1 && v[2] == 7);
}

/// parent_block_indices: position of svec(i,j) inside the parent clique
#[kani::proof]
#[kani::unwind(8)]
pub fn c18_parent_block_indices() {
    let p: [usize; 4] = kani::any();
    kani::assume(p[0] < p[1] && p[1] < p[2] && p[2] < p[3] && p[3] < 10);
    let a: usize = kani::any();
    let b: usize = kani::any();
    kani::assume(a < 4 && b < 4 && a <= b);
    let k = ch::parent_block_indices(&p, p[a], p[b]);
    assert!(k == b * (b + 1) / 2 + a, "index_of_svec(i,j)_in_the_parent_clique_block");
    kani::cover!(a == 1 && b == 3);
}

/// get_rows_subset: the sub-range of a sorted row list falling inside a row range
#[kani::proof]
#[kani::unwind(8)]
pub fn c18_rows_subset() {
    let rows: [usize; 4] = kani::any();
    kani::assume(rows[0] < rows[1] && rows[1] < rows[2] && rows[2] < rows[3] && rows[3] < 12);
    let s: usize = kani::any();
    let e: usize = kani::any();
    kani::assume(s <= 12 && e <= 12);
    let r = ch::get_rows_subset(&rows, s..e);
    let mut cnt = 0;
    let mut first = 4;
    let mut i = 0;
    while i < 4 {
        if rows[i] >= s && rows[i] < e {
            if cnt == 0 {
                first = i;
            }
            cnt += 1;
        }
        i += 1;
    }
    match r {
        None => assert!(cnt == 0, "none_only_if_no_row_in_range"),
        Some(rg) => {
            assert!(rg.end - rg.start == cnt, "range_counts_rows_in_range");
            if cnt > 0 {
                assert!(rg.start == first, "range_starts_at_first_row_in_range");
            }
        }
    }
    kani::cover!(cnt == 2);
    kani::cover!(cnt == 0 && s < e);
}

/// alternating_sequence / extra_columns: (+1,-1) pairs and their column numbers
#[kani::proof]
#[kani::unwind(10)]
pub fn c18_alternating_and_extra_columns() {
    let n_start: usize = kani::any();
    kani::assume(n_start <= 8);
    let v: Vec<f64> = ch::alternating_sequence(8, n_start);
    assert!(v.len() == 8);
    let mut i = 0;
    while i < 8 {
        let want = if i > n_start && (i - n_start) % 2 == 1 { -1.0 } else { 1.0 };
        assert!(v[i] == want, "plus_one_then_alternating_from_n_start");
        i += 1;
    }
    let start_val: usize = kani::any();
    kani::assume(start_val < 50);
    let c = ch::extra_columns(8, n_start, start_val);
    let mut i = 0;
    while i < 8 {
        if i >= n_start && i - n_start < 2 * ((8 - n_start) / 2) {
            assert!(c[i] == start_val + (i - n_start) / 2, "pairs_share_a_new_column");
        } else {
            assert!(c[i] == 0, "entries_before_n_start_untouched");
        }
        i += 1;
    }
    kani::cover!(n_start == 3);
}

/// number_of_overlaps_in_rows: rows of the 0/1 matrix H with more than one entry, with their count.
/// (position_all collects into a growing Vec: patterns enumerated)
#[kani::proof]
#[kani::unwind(10)]
pub fn c18_overlaps_in_rows() {
    const M: usize = 3;
    // (colptr, rowval) of four 3x3 0/1 patterns
    for pid in 0..4u8 {
        let (colptr, rowval): (Vec<usize>, Vec<usize>) = match pid {
            0 => (vec![0, 2, 4, 5], vec![0, 1, 0, 2, 0]), // row 0 three times
            1 => (vec![0, 1, 2, 3], vec![0, 1, 2]),       // no overlap
            2 => (vec![0, 2, 3, 5], vec![1, 2, 1, 1, 2]), // rows 1 (x3) and 2 (x2)
            _ => (vec![0, 0, 0, 0], vec![]),              // empty
        };
        let nnz = rowval.len();
        let H = CscMatrix::<f64> { m: M, n: 3, colptr, rowval, nzval: vec![1.0; nnz] };
        let mut cnt = [0usize; M];
        let mut k = 0;
        while k < nnz {
            cnt[H.rowval[k]] += 1;
            k += 1;
        }
        let (ri, nn) = ch::number_of_overlaps_in_rows(&H);
        assert!(ri.len() == nn.len());
        let mut pos = 0;
        let mut i = 0;
        while i < M {
            if cnt[i] > 1 {
                assert!(pos < ri.len() && ri[pos] == i && nn[pos] == cnt[i] as f64, "overlapping_rows_listed_in_order_with_their_count");
                pos += 1;
            }
            i += 1;
        }
        assert!(pos == ri.len(), "no_other_rows_listed");
    }
    kani::cover!(true);
}

/// get_row_index: position of constraint row (row_range.start + k) inside one column's sorted row list,
/// None iff that row has no structural entry there
#[kani::proof]
#[kani::unwind(8)]
pub fn c18_get_row_index() {
    let rows: [usize; 5] = kani::any();
    kani::assume(rows[0] < rows[1] && rows[1] < rows[2] && rows[2] < rows[3] && rows[3] < rows[4] && rows[4] < 12);
    let cs: usize = kani::any();
    let ce: usize = kani::any();
    kani::assume(cs <= ce && ce <= 5);
    let start: usize = kani::any();
    let k: usize = kani::any();
    kani::assume(start <= 6 && k <= 6);
    let r = ch::get_row_index(k, &rows, start..(start + 7), cs..ce);
    let want = start + k;
    let mut found = 5;
    let mut i = 0;
    while i < 5 {
        if i >= cs && i < ce && rows[i] == want {
            found = i;
        }
        i += 1;
    }
    // the code treats the column range 0..0 as "no entries" (documented special case)
    if cs == 0 && ce == 0 {
        assert!(r.is_none(), "empty_column_range_has_no_row");
    } else if found < 5 {
        assert!(r == Some(found), "present_row_is_found_at_its_position");
    } else {
        assert!(r.is_none(), "absent_row_gives_none");
    }
    kani::cover!(found < 5 && start == 0 && cs == 0 && rows[0] == 0, "cone is first and the column is dense from row 0");
    kani::cover!(found < 5 && start > 0 && cs > 0, "cone after other rows");
    kani::cover!(found == 5 && cs < ce, "row absent");
}
