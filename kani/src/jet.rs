//! `Jet<P>` — first-order jets a + b·ε (ε² = 0) over GF(P), as a scalar type satisfying `FloatT`.
//!
//! Running Clarabel's *generic* barrier code at `Jet` computes, exactly and for all field values,
//! the derivative of every rational expression of the inputs.  Transcendental functions are
//! *uninterpreted*: `ln`, `exp`, `powf(·, e)` return an arbitrary field value (memoised per
//! argument, so the same argument always gives the same value) and carry only their derivative
//! rule:  d ln(x) = dx/x,  d exp(x) = exp(x) dx,  d x^e = e·x^e/x dx (constant exponent);
//! ln additionally satisfies ln(1/x) = -ln(x) (needed by the exponential cone's third-order term).
//! An identity "stored gradient = derivative of the barrier" that the code satisfies over the
//! reals is a consequence of these rules alone, hence holds for every interpretation — in
//! particular for the arbitrary one chosen by the solver; conversely a wrong term or sign is found
//! as a concrete assignment.  `sqrt` is an arbitrary root (see fp.rs).  Comparisons look at the
//! value part only.
use crate::fp::Fp;
use num_traits::{Float, FloatConst, FromPrimitive, Num, NumCast, One, ToPrimitive, Zero};
use std::fmt;
use std::ops::*;

#[derive(Clone, Copy, Default, Debug)]
pub struct Jet<const P: u16> {
    pub a: Fp<P>,
    pub b: Fp<P>,
}

const MEMO: usize = 12;
static mut LN_KEY: [u16; MEMO] = [0; MEMO];
static mut LN_VAL: [u16; MEMO] = [0; MEMO];
static mut LN_N: usize = 0;
static mut EXP_KEY: [u16; MEMO] = [0; MEMO];
static mut EXP_VAL: [u16; MEMO] = [0; MEMO];
static mut EXP_N: usize = 0;
static mut POW_KEY: [(u16, u16); MEMO] = [(0, 0); MEMO];
static mut POW_VAL: [u16; MEMO] = [0; MEMO];
static mut POW_N: usize = 0;

#[cfg(kani)]
fn fresh<const P: u16>() -> u16 {
    let v: u16 = kani::any();
    kani::assume(v < P);
    v
}
#[cfg(not(kani))]
fn fresh<const P: u16>() -> u16 {
    3 % P
}

fn memo1<const P: u16>(keys: &mut [u16; MEMO], vals: &mut [u16; MEMO], n: &mut usize, k: u16) -> u16 {
    let mut i = 0;
    while i < MEMO {
        if i < *n && keys[i] == k {
            return vals[i];
        }
        i += 1;
    }
    let v = fresh::<P>();
    assert!(*n < MEMO, "jet memo table full");
    keys[*n] = k;
    vals[*n] = v;
    *n += 1;
    v
}

impl<const P: u16> Jet<P> {
    pub fn new(a: Fp<P>, b: Fp<P>) -> Self {
        Jet { a, b }
    }
    pub fn constant(a: Fp<P>) -> Self {
        Jet { a, b: Fp(0) }
    }
    /// uninterpreted ln on the value part, with the one law the cone code relies on: ln(1/x) = -ln(x)
    /// (the exponential cone's gradient uses ln(-z3/z1), its third-order correction ln(-z1/z3)).
    /// The memo is keyed by the smaller representative of {x, 1/x}.
    pub fn ln_value(a: Fp<P>) -> Fp<P> {
        let ia = a.inv_det();
        if a.0 == ia.0 {
            return Fp(0); // x = 1/x: ln must be its own negative
        }
        let (key, flip) = if a.0 < ia.0 { (a.0, false) } else { (ia.0, true) };
        let v = unsafe { Fp::<P>(memo1::<P>(&mut *std::ptr::addr_of_mut!(LN_KEY), &mut *std::ptr::addr_of_mut!(LN_VAL), &mut *std::ptr::addr_of_mut!(LN_N), key)) };
        if flip {
            -v
        } else {
            v
        }
    }
    pub fn exp_value(a: Fp<P>) -> Fp<P> {
        unsafe { Fp(memo1::<P>(&mut *std::ptr::addr_of_mut!(EXP_KEY), &mut *std::ptr::addr_of_mut!(EXP_VAL), &mut *std::ptr::addr_of_mut!(EXP_N), a.0)) }
    }
    pub fn pow_value(a: Fp<P>, e: Fp<P>) -> Fp<P> {
        unsafe {
            let keys = &mut *std::ptr::addr_of_mut!(POW_KEY);
            let vals = &mut *std::ptr::addr_of_mut!(POW_VAL);
            let n = &mut *std::ptr::addr_of_mut!(POW_N);
            let mut i = 0;
            while i < MEMO {
                if i < *n && keys[i] == (a.0, e.0) {
                    return Fp(vals[i]);
                }
                i += 1;
            }
            let v = fresh::<P>();
            assert!(*n < MEMO, "jet memo table full");
            keys[*n] = (a.0, e.0);
            vals[*n] = v;
            *n += 1;
            Fp(v)
        }
    }
}

impl<const P: u16> PartialEq for Jet<P> {
    fn eq(&self, o: &Self) -> bool {
        self.a == o.a
    }
}
impl<const P: u16> PartialOrd for Jet<P> {
    fn partial_cmp(&self, o: &Self) -> Option<std::cmp::Ordering> {
        self.a.partial_cmp(&o.a)
    }
}
impl<const P: u16> Add for Jet<P> {
    type Output = Self;
    fn add(self, o: Self) -> Self {
        Jet { a: self.a + o.a, b: self.b + o.b }
    }
}
impl<const P: u16> Sub for Jet<P> {
    type Output = Self;
    fn sub(self, o: Self) -> Self {
        Jet { a: self.a - o.a, b: self.b - o.b }
    }
}
impl<const P: u16> Mul for Jet<P> {
    type Output = Self;
    fn mul(self, o: Self) -> Self {
        Jet { a: self.a * o.a, b: self.a * o.b + self.b * o.a }
    }
}
impl<const P: u16> Neg for Jet<P> {
    type Output = Self;
    fn neg(self) -> Self {
        Jet { a: -self.a, b: -self.b }
    }
}
impl<const P: u16> Div for Jet<P> {
    type Output = Self;
    fn div(self, o: Self) -> Self {
        self * Float::recip(o)
    }
}
impl<const P: u16> Rem for Jet<P> {
    type Output = Self;
    fn rem(self, _o: Self) -> Self {
        unimplemented!("Jet: rem")
    }
}
macro_rules! assign_ops {
    ($($tr:ident $f:ident $op:tt;)*) => {$(
        impl<const P: u16> $tr for Jet<P> {
            fn $f(&mut self, o: Self) { *self = *self $op o; }
        }
    )*};
}
assign_ops! { AddAssign add_assign +; SubAssign sub_assign -; MulAssign mul_assign *; DivAssign div_assign /; RemAssign rem_assign %; }

impl<const P: u16> Zero for Jet<P> {
    fn zero() -> Self {
        Jet::constant(Fp(0))
    }
    fn is_zero(&self) -> bool {
        self.a.0 == 0
    }
}
impl<const P: u16> One for Jet<P> {
    fn one() -> Self {
        Jet::constant(Fp(1 % P))
    }
}
impl<const P: u16> Num for Jet<P> {
    type FromStrRadixErr = ();
    fn from_str_radix(_s: &str, _r: u32) -> Result<Self, ()> {
        Err(())
    }
}
impl<const P: u16> ToPrimitive for Jet<P> {
    fn to_i64(&self) -> Option<i64> {
        Some(self.a.0 as i64)
    }
    fn to_u64(&self) -> Option<u64> {
        Some(self.a.0 as u64)
    }
    fn to_f64(&self) -> Option<f64> {
        Some(self.a.0 as f64)
    }
}
impl<const P: u16> NumCast for Jet<P> {
    fn from<T: ToPrimitive>(n: T) -> Option<Self> {
        <Fp<P> as NumCast>::from(n).map(Jet::constant)
    }
}
impl<const P: u16> FromPrimitive for Jet<P> {
    fn from_i64(n: i64) -> Option<Self> {
        <Fp<P> as FromPrimitive>::from_i64(n).map(Jet::constant)
    }
    fn from_u64(n: u64) -> Option<Self> {
        <Fp<P> as FromPrimitive>::from_u64(n).map(Jet::constant)
    }
    fn from_f64(x: f64) -> Option<Self> {
        <Fp<P> as FromPrimitive>::from_f64(x).map(Jet::constant)
    }
}
impl<const P: u16> fmt::Display for Jet<P> {
    fn fmt(&self, f: &mut fmt::Formatter<'_>) -> fmt::Result {
        write!(f, "{}+{}e", self.a.0, self.b.0)
    }
}
impl<const P: u16> fmt::LowerExp for Jet<P> {
    fn fmt(&self, f: &mut fmt::Formatter<'_>) -> fmt::Result {
        write!(f, "{}+{}e", self.a.0, self.b.0)
    }
}

macro_rules! unimpl0 {
    ($($f:ident)*) => {$( fn $f() -> Self { unimplemented!(concat!("Jet::", stringify!($f))) } )*};
}
macro_rules! unimpl1 {
    ($($f:ident)*) => {$( fn $f(self) -> Self { unimplemented!(concat!("Jet::", stringify!($f))) } )*};
}
macro_rules! unimpl2 {
    ($($f:ident)*) => {$( fn $f(self, _o: Self) -> Self { unimplemented!(concat!("Jet::", stringify!($f))) } )*};
}

impl<const P: u16> Float for Jet<P> {
    unimpl0! { nan infinity neg_infinity }
    fn neg_zero() -> Self {
        Self::zero()
    }
    fn min_value() -> Self {
        Self::zero()
    }
    fn min_positive_value() -> Self {
        Self::one()
    }
    fn max_value() -> Self {
        Jet::constant(Fp(P - 1))
    }
    fn epsilon() -> Self {
        Self::zero()
    }
    fn is_nan(self) -> bool {
        false
    }
    fn is_infinite(self) -> bool {
        false
    }
    fn is_finite(self) -> bool {
        true
    }
    fn is_normal(self) -> bool {
        self.a.0 != 0
    }
    fn classify(self) -> std::num::FpCategory {
        std::num::FpCategory::Normal
    }
    unimpl1! { floor ceil round trunc fract signum exp2 log2 log10 cbrt sin cos tan asin acos atan exp_m1 ln_1p sinh cosh tanh asinh acosh atanh }
    unimpl2! { log abs_sub hypot atan2 }
    fn abs(self) -> Self {
        self
    }
    fn is_sign_positive(self) -> bool {
        true
    }
    fn is_sign_negative(self) -> bool {
        false
    }
    fn mul_add(self, a: Self, b: Self) -> Self {
        self * a + b
    }
    fn recip(self) -> Self {
        let r = Float::recip(self.a);
        Jet { a: r, b: -(self.b * r * r) }
    }
    fn powi(self, n: i32) -> Self {
        // small exponents only (the cone code uses 2 and 3)
        let mut acc = Self::one();
        let mut k = 0;
        let m = if n >= 0 { n } else { -n };
        while k < 4 {
            if k < m {
                acc = acc * self;
            }
            k += 1;
        }
        assert!(m <= 4, "Jet::powi exponent too large");
        if n >= 0 {
            acc
        } else {
            Float::recip(acc)
        }
    }
    fn powf(self, e: Self) -> Self {
        // x^e with constant exponent: value uninterpreted, derivative e x^e / x
        let v = Jet::<P>::pow_value(self.a, e.a);
        Jet { a: v, b: e.a * v * Float::recip(self.a) * self.b }
    }
    fn sqrt(self) -> Self {
        let r = Float::sqrt(self.a);
        let two = Fp::<P>(2 % P);
        Jet { a: r, b: self.b * Float::recip(two * r) }
    }
    fn exp(self) -> Self {
        let v = Jet::<P>::exp_value(self.a);
        Jet { a: v, b: v * self.b }
    }
    fn ln(self) -> Self {
        let v = Jet::<P>::ln_value(self.a);
        Jet { a: v, b: self.b * Float::recip(self.a) }
    }
    fn max(self, o: Self) -> Self {
        if self.a.0 >= o.a.0 {
            self
        } else {
            o
        }
    }
    fn min(self, o: Self) -> Self {
        if self.a.0 <= o.a.0 {
            self
        } else {
            o
        }
    }
    fn sin_cos(self) -> (Self, Self) {
        unimplemented!("Jet::sin_cos")
    }
    fn integer_decode(self) -> (u64, i16, i8) {
        (self.a.0 as u64, 0, 1)
    }
}

impl<const P: u16> FloatConst for Jet<P> {
    unimpl0! { E FRAC_1_PI FRAC_2_PI FRAC_2_SQRT_PI FRAC_PI_2 FRAC_PI_3 FRAC_PI_4 FRAC_PI_6 FRAC_PI_8 LN_10 LN_2 LOG10_E LOG2_E PI }
    fn SQRT_2() -> Self {
        Jet::constant(<Fp<P> as FloatConst>::SQRT_2())
    }
    fn FRAC_1_SQRT_2() -> Self {
        Jet::constant(<Fp<P> as FloatConst>::FRAC_1_SQRT_2())
    }
}

#[cfg(all(test, not(feature = "sdp")))]
mod tests {
    use super::*;
    use clarabel::algebra::FloatT;
    fn needs_floatt<T: FloatT>() {}
    #[test]
    fn jet_is_floatt() {
        needs_floatt::<Jet<13>>();
        let x = Jet::<13>::new(Fp(3), Fp(1));
        let y = x * x * x; // d/dx x^3 = 3 x^2 = 27 = 1 mod 13
        assert_eq!(y.a.0, 27 % 13);
        assert_eq!(y.b.0, 27 % 13);
        let r = Float::recip(x); // d/dx 1/x = -1/x^2
        assert_eq!((r.a * x.a).0, 1);
        assert_eq!((r.b * x.a * x.a).0, 12);
    }
}
