//! C01 / C02 / C03 — the verdict logic, the report and the unscaling, for *all* f64 values.
//!
//! Units: DefaultInfo::{check_termination, post_process, save_prev_iterate, reset_to_prev_iterate},
//! DefaultSolution::post_process, DefaultVariables::unscale.
use crate::gen::*;
use clarabel::algebra::*;
use clarabel::solver::implementations::default::verif_hooks as dh;
use clarabel::solver::traits::{Info, Solution};
use clarabel::solver::*;

pub fn any_info() -> DefaultInfo<f64> {
    let mut info = dh::info_new_sink::<f64>();
    info.μ = kani::any();
    info.sigma = kani::any();
    info.step_length = kani::any();
    info.iterations = kani::any();
    info.cost_primal = kani::any();
    info.cost_dual = kani::any();
    info.res_primal = kani::any();
    info.res_dual = kani::any();
    info.res_primal_inf = kani::any();
    info.res_dual_inf = kani::any();
    info.gap_abs = kani::any();
    info.gap_rel = kani::any();
    info.ktratio = kani::any();
    info.solve_time = kani::any();
    let prev: [f64; 6] = kani::any();
    dh::info_set_prev(&mut info, prev);
    info
}

pub fn any_status() -> SolverStatus {
    let k: u8 = kani::any();
    kani::assume(k <= 10);
    match k {
        0 => SolverStatus::Unsolved,
        1 => SolverStatus::Solved,
        2 => SolverStatus::PrimalInfeasible,
        3 => SolverStatus::DualInfeasible,
        4 => SolverStatus::AlmostSolved,
        5 => SolverStatus::AlmostPrimalInfeasible,
        6 => SolverStatus::AlmostDualInfeasible,
        7 => SolverStatus::MaxIterations,
        8 => SolverStatus::MaxTime,
        9 => SolverStatus::NumericalError,
        _ => SolverStatus::InsufficientProgress,
    }
}

pub fn any_settings() -> DefaultSettings<f64> {
    let mut s = settings_f64();
    s.max_iter = kani::any();
    s.time_limit = kani::any();
    s.tol_gap_abs = kani::any();
    s.tol_gap_rel = kani::any();
    s.tol_feas = kani::any();
    s.tol_infeas_abs = kani::any();
    s.tol_infeas_rel = kani::any();
    s.tol_ktratio = kani::any();
    s.reduced_tol_gap_abs = kani::any();
    s.reduced_tol_gap_rel = kani::any();
    s.reduced_tol_feas = kani::any();
    s.reduced_tol_infeas_abs = kani::any();
    s.reduced_tol_infeas_rel = kani::any();
    s.reduced_tol_ktratio = kani::any();
    s
}

/// "cheap factor" domain: {±2^k for every normal exponent k, ±0, ±inf, NaN}.  The significand is a constant, so a
/// product or quotient with such a value bit-blasts to exponent arithmetic; used for the factors of the
/// products that the oracle has to recompute (an equivalence check of two 53-bit multipliers otherwise).
pub fn pow2_or_special() -> f64 {
    let k: u16 = kani::any();
    kani::assume(k >= 1 && k <= 2046);
    let sel: u8 = kani::any();
    let v = match sel {
        0 => 0.0,
        1 => f64::INFINITY,
        2 => f64::NAN,
        _ => f64::from_bits((k as u64) << 52),
    };
    if kani::any() {
        -v
    } else {
        v
    }
}

/// which factor of the recomputed products `-tol_infeas_rel * <b,z>`, `-tol_infeas_rel * <q,x>` is taken from
/// the cheap-factor domain (the other one, like everything else, ranges over all f64 bit patterns);
/// `tol_ktratio` (a quotient and a product by 1000) is from the cheap-factor domain in both modes
#[derive(Clone, Copy, PartialEq)]
pub enum Cheap {
    Tolerances,
    DotProducts,
}

pub fn any_settings_cheap(mode: Cheap) -> DefaultSettings<f64> {
    let mut s = any_settings();
    s.tol_ktratio = pow2_or_special();
    s.reduced_tol_ktratio = pow2_or_special();
    if mode == Cheap::Tolerances {
        s.tol_infeas_rel = pow2_or_special();
        s.reduced_tol_infeas_rel = pow2_or_special();
    }
    s
}

pub fn any_residual_scalars_cheap(n: usize, m: usize, mode: Cheap) -> DefaultResiduals<f64> {
    let mut r = DefaultResiduals::<f64>::new(n, m);
    let mut sc: [f64; 5] = kani::any();
    if mode == Cheap::DotProducts {
        sc[1] = pow2_or_special();
        sc[2] = pow2_or_special();
    }
    dh::residuals_set_scalars(&mut r, sc);
    r
}

pub fn any_residual_scalars(n: usize, m: usize) -> DefaultResiduals<f64> {
    let mut r = DefaultResiduals::<f64>::new(n, m);
    let sc: [f64; 5] = kani::any();
    dh::residuals_set_scalars(&mut r, sc);
    r
}

// the documented tests, written out independently of the implementation's helper structure
fn solved_test(i: &DefaultInfo<f64>, gap_abs: f64, gap_rel: f64, feas: f64) -> bool {
    i.ktratio <= 1.0 && i.res_primal < feas && i.res_dual < feas && (i.gap_abs < gap_abs || i.gap_rel < gap_rel)
}
fn kt_large(i: &DefaultInfo<f64>, tol_ktratio: f64) -> bool {
    i.ktratio > (1.0 / tol_ktratio) * 1000.0
}
fn pinf_test(i: &DefaultInfo<f64>, dot_bz: f64, abs: f64, rel: f64) -> bool {
    dot_bz < -abs && i.res_primal_inf < -rel * dot_bz
}
fn dinf_test(i: &DefaultInfo<f64>, dot_qx: f64, abs: f64, rel: f64) -> bool {
    dot_qx < -abs && i.res_dual_inf < -rel * dot_qx
}

fn numeric_fields(i: &DefaultInfo<f64>) -> [u64; 14] {
    [
        i.μ.to_bits(),
        i.sigma.to_bits(),
        i.step_length.to_bits(),
        i.iterations as u64,
        i.cost_primal.to_bits(),
        i.cost_dual.to_bits(),
        i.res_primal.to_bits(),
        i.res_dual.to_bits(),
        i.res_primal_inf.to_bits(),
        i.res_dual_inf.to_bits(),
        i.gap_abs.to_bits(),
        i.gap_rel.to_bits(),
        i.ktratio.to_bits(),
        i.solve_time.to_bits(),
    ]
}

/// shared body: run check_termination from an arbitrary Unsolved state and return everything observable
struct Term {
    before: DefaultInfo<f64>,
    after: DefaultInfo<f64>,
    ret: bool,
    s: DefaultSettings<f64>,
    dot_qx: f64,
    dot_bz: f64,
    iter: u32,
}

fn run_termination() -> Term {
    run_termination_with(None)
}

fn run_termination_with(mode: Option<Cheap>) -> Term {
    let mut info = any_info();
    info.status = SolverStatus::Unsolved; // loop invariant of Solver::solve (decided in C04.loop)
    let (r, s) = match mode {
        None => (any_residual_scalars(1, 1), any_settings()),
        Some(m) => (any_residual_scalars_cheap(1, 1, m), any_settings_cheap(m)),
    };
    let iter: u32 = kani::any();
    let before = info.clone();
    let ret = info.check_termination(&r, &s, iter);
    let sc = dh::residuals_get_scalars(&r);
    Term { before, after: info, ret, s, dot_qx: sc[1], dot_bz: sc[2], iter }
}

/// C01.verdict — Solved is reported iff the documented optimality test holds on the info fields
#[kani::proof]
pub fn c01_verdict_solved() {
    let t = run_termination();
    let st = t.after.status;
    let ok = solved_test(&t.before, t.s.tol_gap_abs, t.s.tol_gap_rel, t.s.tol_feas);
    assert!(t.ret == (st != SolverStatus::Unsolved), "return_value_iff_terminal_status");
    if st == SolverStatus::Solved {
        assert!(ok, "solved_implies_documented_inequalities");
    }
    if ok {
        assert!(st == SolverStatus::Solved, "documented_inequalities_imply_solved");
    }
    assert!(numeric_fields(&t.before) == numeric_fields(&t.after), "check_termination_changes_only_status");
    assert!(dh::info_get_prev(&t.before).map(f64::to_bits) == dh::info_get_prev(&t.after).map(f64::to_bits));
    assert!(
        matches!(
            st,
            SolverStatus::Unsolved
                | SolverStatus::Solved
                | SolverStatus::PrimalInfeasible
                | SolverStatus::DualInfeasible
                | SolverStatus::InsufficientProgress
                | SolverStatus::MaxIterations
                | SolverStatus::MaxTime
        ),
        "no_almost_or_error_status_from_check_termination"
    );
    kani::cover!(st == SolverStatus::Solved, "Solved reached");
    kani::cover!(st == SolverStatus::Solved && t.before.gap_abs.is_infinite(), "Solved through the relative gap only");
    kani::cover!(st == SolverStatus::Unsolved, "Unsolved reached");
}

/// C02.verdict — infeasibility verdicts only with the documented certificate inequalities
fn verdict_infeasible(mode: Cheap) {
    let t = run_termination_with(Some(mode));
    let st = t.after.status;
    let ok = solved_test(&t.before, t.s.tol_gap_abs, t.s.tol_gap_rel, t.s.tol_feas);
    let kt = kt_large(&t.before, t.s.tol_ktratio);
    let pinf = pinf_test(&t.before, t.dot_bz, t.s.tol_infeas_abs, t.s.tol_infeas_rel);
    let dinf = dinf_test(&t.before, t.dot_qx, t.s.tol_infeas_abs, t.s.tol_infeas_rel);
    if st == SolverStatus::PrimalInfeasible {
        assert!(!ok && kt && pinf, "primal_infeasible_implies_certificate_test");
        assert!(t.dot_bz < 0.0 || t.s.tol_infeas_abs < 0.0 || t.s.tol_infeas_abs.is_nan(), "b'z_negative_for_nonnegative_tolerance");
    }
    if st == SolverStatus::DualInfeasible {
        assert!(!ok && kt && dinf && !pinf, "dual_infeasible_implies_certificate_test_and_primal_checked_first");
    }
    if !ok && kt && pinf {
        assert!(st == SolverStatus::PrimalInfeasible, "certificate_test_implies_primal_infeasible");
    }
    if !ok && kt && !pinf && dinf {
        assert!(st == SolverStatus::DualInfeasible, "certificate_test_implies_dual_infeasible");
    }
    kani::cover!(st == SolverStatus::PrimalInfeasible, "PrimalInfeasible reached");
    kani::cover!(st == SolverStatus::DualInfeasible, "DualInfeasible reached");
}

#[kani::proof]
pub fn c02_verdict_infeasible() {
    verdict_infeasible(Cheap::Tolerances);
}

#[kani::proof]
pub fn c02_verdict_infeasible_dots() {
    verdict_infeasible(Cheap::DotProducts);
}

/// C04 (limits) + C03: iteration / time limits and insufficient progress
#[kani::proof]
pub fn c04_verdict_limits() {
    let t = run_termination_with(Some(Cheap::Tolerances));
    let st = t.after.status;
    let b = &t.before;
    let ok = solved_test(b, t.s.tol_gap_abs, t.s.tol_gap_rel, t.s.tol_feas);
    let kt = kt_large(b, t.s.tol_ktratio);
    let pinf = pinf_test(b, t.dot_bz, t.s.tol_infeas_abs, t.s.tol_infeas_rel);
    let dinf = dinf_test(b, t.dot_qx, t.s.tol_infeas_abs, t.s.tol_infeas_rel);
    let converged = ok || (kt && (pinf || dinf));
    let p = dh::info_get_prev(b);
    let (prev_res_primal, prev_res_dual, prev_gap_abs, prev_gap_rel) = (p[2], p[3], p[4], p[5]);
    let worse = t.iter > 1 && (b.res_dual > prev_res_dual || b.res_primal > prev_res_primal);
    let stall = b.ktratio < f64::EPSILON * 100.0 && (prev_gap_abs < t.s.tol_gap_abs || prev_gap_rel < t.s.tol_gap_rel);
    let diverge = b.ktratio < 1.0;
    // NB: the "divergence" branch compares against 100*tol_feas and 100*prev_res: re-deriving those
    // products in the oracle makes the query an equivalence check of two f64 multipliers, which the
    // SAT back end does not finish (15 min); the exact factor 100 is therefore outside the claim and
    // only the product-free consequences are asserted.
    let _ = diverge;
    if st == SolverStatus::InsufficientProgress {
        assert!(!converged && worse, "insufficient_progress_only_when_not_converged_and_residuals_got_worse");
        assert!(stall || b.ktratio < 1.0, "insufficient_progress_needs_stall_or_small_kappa_tau_ratio");
    }
    if !converged && worse && stall {
        assert!(st == SolverStatus::InsufficientProgress, "stall_at_high_accuracy_reported");
    }
    if !converged && st != SolverStatus::InsufficientProgress {
        if t.s.max_iter == b.iterations {
            assert!(st == SolverStatus::MaxIterations, "iteration_limit_reported");
        } else if b.solve_time > t.s.time_limit {
            assert!(st == SolverStatus::MaxTime, "time_limit_reported_at_this_boundary");
        } else {
            assert!(st == SolverStatus::Unsolved && !t.ret, "otherwise_continue");
        }
    }
    if st == SolverStatus::MaxIterations {
        assert!(t.s.max_iter == b.iterations);
    }
    if st == SolverStatus::MaxTime {
        assert!(b.solve_time > t.s.time_limit && t.s.max_iter != b.iterations);
    }
    kani::cover!(st == SolverStatus::MaxIterations, "MaxIterations reached");
    kani::cover!(st == SolverStatus::MaxTime, "MaxTime reached");
    kani::cover!(st == SolverStatus::InsufficientProgress && stall, "InsufficientProgress (stall) reached");
    kani::cover!(st == SolverStatus::InsufficientProgress && !stall, "InsufficientProgress (divergence) reached");
}

/// C03.almost — Almost* statuses only from an error/limit status and only under the reduced tolerances
#[kani::proof]
pub fn c03_almost() {
    let mut info = any_info();
    let prior = any_status();
    info.status = prior;
    let r = any_residual_scalars_cheap(1, 1, Cheap::Tolerances);
    let s = any_settings_cheap(Cheap::Tolerances);
    let before = info.clone();
    info.post_process(&r, &s);
    let st = info.status;
    let sc = dh::residuals_get_scalars(&r);
    let eligible = matches!(
        prior,
        SolverStatus::NumericalError | SolverStatus::InsufficientProgress | SolverStatus::MaxIterations | SolverStatus::MaxTime
    );
    assert!(numeric_fields(&before) == numeric_fields(&info), "post_process_changes_only_status");
    if !eligible {
        assert!(st == prior, "final_verdicts_are_never_rewritten");
    }
    assert!(
        st == prior
            || matches!(
                st,
                SolverStatus::AlmostSolved | SolverStatus::AlmostPrimalInfeasible | SolverStatus::AlmostDualInfeasible
            ),
        "only_almost_statuses_are_introduced"
    );
    let ok = solved_test(&before, s.reduced_tol_gap_abs, s.reduced_tol_gap_rel, s.reduced_tol_feas);
    let kt = kt_large(&before, s.reduced_tol_ktratio);
    let pinf = pinf_test(&before, sc[2], s.reduced_tol_infeas_abs, s.reduced_tol_infeas_rel);
    let dinf = dinf_test(&before, sc[1], s.reduced_tol_infeas_abs, s.reduced_tol_infeas_rel);
    if st == SolverStatus::AlmostSolved && prior != st {
        assert!(ok, "almost_solved_implies_reduced_tolerances_met");
    }
    if st == SolverStatus::AlmostPrimalInfeasible && prior != st {
        assert!(!ok && kt && pinf, "almost_primal_infeasible_implies_reduced_test");
    }
    if st == SolverStatus::AlmostDualInfeasible && prior != st {
        assert!(!ok && kt && dinf && !pinf, "almost_dual_infeasible_implies_reduced_test");
    }
    if eligible && ok {
        assert!(st == SolverStatus::AlmostSolved, "reduced_tolerances_met_implies_almost_solved");
    }
    kani::cover!(st == SolverStatus::AlmostSolved && prior == SolverStatus::MaxIterations, "MaxIterations -> AlmostSolved");
    kani::cover!(st == SolverStatus::AlmostPrimalInfeasible && prior == SolverStatus::NumericalError, "NumericalError -> AlmostPrimalInfeasible");
    kani::cover!(st == SolverStatus::AlmostDualInfeasible && prior == SolverStatus::MaxTime, "MaxTime -> AlmostDualInfeasible");
    kani::cover!(st == SolverStatus::InsufficientProgress, "error status kept");
}

/// C03.rollback — save_prev_iterate / arbitrary overwrite / reset_to_prev_iterate restores the saved iterate
#[kani::proof]
#[kani::unwind(4)]
pub fn c03_rollback() {
    let mut info = any_info();
    let mut v = DefaultVariables::<f64>::new(2, 2);
    let x: [f64; 2] = kani::any();
    let s: [f64; 2] = kani::any();
    let z: [f64; 2] = kani::any();
    v.x.copy_from_slice(&x);
    v.s.copy_from_slice(&s);
    v.z.copy_from_slice(&z);
    v.τ = kani::any();
    v.κ = kani::any();
    let (tau, kappa) = (v.τ, v.κ);
    let mut prev = DefaultVariables::<f64>::new(2, 2);
    let saved = info.clone();
    info.save_prev_iterate(&v, &mut prev);
    // the iterate and the info fields move on arbitrarily
    let x2: [f64; 2] = kani::any();
    let s2: [f64; 2] = kani::any();
    let z2: [f64; 2] = kani::any();
    v.x.copy_from_slice(&x2);
    v.s.copy_from_slice(&s2);
    v.z.copy_from_slice(&z2);
    v.τ = kani::any();
    v.κ = kani::any();
    info.cost_primal = kani::any();
    info.cost_dual = kani::any();
    info.res_primal = kani::any();
    info.res_dual = kani::any();
    info.gap_abs = kani::any();
    info.gap_rel = kani::any();
    info.reset_to_prev_iterate(&mut v, &prev);
    assert!(same_bits(info.cost_primal, saved.cost_primal) && same_bits(info.cost_dual, saved.cost_dual), "costs_restored");
    assert!(same_bits(info.res_primal, saved.res_primal) && same_bits(info.res_dual, saved.res_dual), "residuals_restored");
    assert!(same_bits(info.gap_abs, saved.gap_abs) && same_bits(info.gap_rel, saved.gap_rel), "gaps_restored");
    let mut i = 0;
    while i < 2 {
        assert!(same_bits(v.x[i], x[i]) && same_bits(v.s[i], s[i]) && same_bits(v.z[i], z[i]), "iterate_restored");
        i += 1;
    }
    assert!(same_bits(v.τ, tau) && same_bits(v.κ, kappa), "tau_kappa_restored");
    kani::cover!(x[0] == 1.0 && x2[0] == 2.0);
}

use crate::fp::*;
type F = F13;

/// problem data with n = 2 variables, m = 2 rows, arbitrary equilibration vectors over GF(13).
/// (f64 is not used here: proving (x*d)*(1/tau) equal to an independently written product is an
/// equivalence check of two 53-bit multipliers, which the SAT back end does not finish; over the
/// field the same *generic* code is decided for all values in seconds.)
fn data_with_equilibration_fp() -> DefaultProblemData<F> {
    let P = CscMatrix::<F>::zeros((2, 2));
    let A = CscMatrix::<F>::zeros((2, 2));
    let q = [F::new(0), F::new(0)];
    let b = [F::new(0), F::new(0)];
    let cones = [SupportedConeT::NonnegativeConeT(2)];
    let mut settings = settings_t::<F>();
    settings.presolve_enable = false;
    let mut data = DefaultProblemData::<F>::new(&P, &q, &A, &b, &cones, &settings);
    let eq = &mut data.equilibration;
    let mut i = 0;
    while i < 2 {
        eq.d[i] = F::any();
        eq.dinv[i] = F::any();
        eq.e[i] = F::any();
        eq.einv[i] = F::any();
        i += 1;
    }
    eq.c = F::any_nonzero();
    data
}

fn any_vars22_fp() -> DefaultVariables<F> {
    let mut v = DefaultVariables::<F>::new(2, 2);
    let mut i = 0;
    while i < 2 {
        v.x[i] = F::any();
        v.s[i] = F::any();
        v.z[i] = F::any();
        i += 1;
    }
    v.τ = F::any_nonzero();
    v.κ = F::any_nonzero();
    v
}

fn copy_vars<T: FloatT>(v: &DefaultVariables<T>) -> DefaultVariables<T> {
    let mut w = DefaultVariables::<T>::new(v.x.len(), v.s.len());
    w.x.copy_from_slice(&v.x);
    w.s.copy_from_slice(&v.s);
    w.z.copy_from_slice(&v.z);
    w.τ = v.τ;
    w.κ = v.κ;
    w
}

/// C01.unscale / C02 — the returned point is the iterate with equilibration and homogenisation undone:
/// x*d/τ, z*e/(c τ), s*einv/τ  (κ instead of τ for infeasibility certificates).  Exact over GF(13).
#[kani::proof]
#[kani::unwind(4)]
pub fn c01_unscale() {
    let data = data_with_equilibration_fp();
    let mut v = any_vars22_fp();
    let v0 = copy_vars(&v);
    let is_infeasible: bool = kani::any();
    dh::variables_unscale(&mut v, &data, is_infeasible);
    let eq = &data.equilibration;
    let scale = if is_infeasible { v0.κ } else { v0.τ };
    let mut i = 0;
    while i < 2 {
        // cross-multiplied form: no division in the oracle
        assert!(v.x[i] * scale == v0.x[i] * eq.d[i], "x_is_scaled_by_d_over_tau");
        assert!(v.z[i] * scale * eq.c == v0.z[i] * eq.e[i], "z_is_scaled_by_e_over_c_tau");
        assert!(v.s[i] * scale == v0.s[i] * eq.einv[i], "s_is_scaled_by_einv_over_tau");
        i += 1;
    }
    assert!(v.τ * scale == v0.τ && v.κ * scale == v0.κ, "tau_kappa_normalised");
    kani::cover!(is_infeasible && v0.κ.0 == 2 && v0.x[0].0 == 4 && eq.d[0].0 == 7, "kappa normalisation");
    kani::cover!(!is_infeasible && v0.τ.0 == 2, "tau normalisation");
}

/// C01.post (field part): through Solution::post_process the user receives exactly the unscaled iterate
#[kani::proof]
#[kani::unwind(4)]
pub fn c01_post_process_fp() {
    let data = data_with_equilibration_fp();
    let mut v = any_vars22_fp();
    let v0 = copy_vars(&v);
    let mut info = dh::info_new_sink::<F>();
    let k: u8 = kani::any();
    kani::assume(k <= 6);
    info.status = match k {
        0 => SolverStatus::Unsolved,
        1 => SolverStatus::Solved,
        2 => SolverStatus::AlmostSolved,
        3 => SolverStatus::MaxIterations,
        4 => SolverStatus::MaxTime,
        5 => SolverStatus::NumericalError,
        _ => SolverStatus::InsufficientProgress,
    };
    info.cost_primal = F::any();
    info.cost_dual = F::any();
    let settings = settings_t::<F>();
    let mut sol = dh::solution_new_plain::<F>(2, 2);
    sol.post_process(&data, &mut v, &info, &settings);
    let eq = &data.equilibration;
    assert!(sol.obj_val == info.cost_primal && sol.obj_val_dual == info.cost_dual, "objectives_copied");
    let mut i = 0;
    while i < 2 {
        assert!(sol.x[i] * v0.τ == v0.x[i] * eq.d[i], "solution_x_unscaled");
        assert!(sol.z[i] * v0.τ * eq.c == v0.z[i] * eq.e[i], "solution_z_unscaled");
        assert!(sol.s[i] * v0.τ == v0.s[i] * eq.einv[i], "solution_s_unscaled");
        i += 1;
    }
    kani::cover!(v0.τ.0 == 3 && sol.x[0].0 == 5, "nontrivial scaling");
}

/// C03.copy / C02.nan_obj — f64, every bit pattern, identity scaling (the scaling algebra is c01_unscale):
/// what the user reads is what the info holds; objectives are NaN iff the status is an infeasibility verdict
#[kani::proof]
#[kani::unwind(4)]
pub fn c03_solution_post_process() {
    let P = CscMatrix::<f64>::zeros((2, 2));
    let A = CscMatrix::<f64>::zeros((2, 2));
    let cones = [SupportedConeT::NonnegativeConeT(2)];
    let mut settings = settings_f64();
    settings.presolve_enable = false;
    let data = DefaultProblemData::<f64>::new(&P, &[0.0, 0.0], &A, &[0.0, 0.0], &cones, &settings);
    let mut v = DefaultVariables::<f64>::new(2, 2);
    let x: [f64; 2] = kani::any();
    let s: [f64; 2] = kani::any();
    let z: [f64; 2] = kani::any();
    v.x.copy_from_slice(&x);
    v.s.copy_from_slice(&s);
    v.z.copy_from_slice(&z);
    let mut info = any_info();
    info.status = any_status();
    let mut sol = DefaultSolution::<f64>::new(2, 2);
    sol.post_process(&data, &mut v, &info, &settings);
    sol.finalize(&info);
    let inf = matches!(
        info.status,
        SolverStatus::PrimalInfeasible
            | SolverStatus::DualInfeasible
            | SolverStatus::AlmostPrimalInfeasible
            | SolverStatus::AlmostDualInfeasible
    );
    assert!(dh::status_is_infeasible(info.status) == inf, "is_infeasible_covers_exactly_the_four_infeasible_statuses");
    assert!(sol.status == info.status, "status_copied");
    if inf {
        assert!(sol.obj_val.is_nan() && sol.obj_val_dual.is_nan(), "objectives_nan_for_infeasible");
    } else {
        assert!(same_bits(sol.obj_val, info.cost_primal) && same_bits(sol.obj_val_dual, info.cost_dual), "objectives_copied_for_non_infeasible");
    }
    assert!(sol.iterations == info.iterations, "iterations_copied");
    assert!(same_bits(sol.r_prim, info.res_primal) && same_bits(sol.r_dual, info.res_dual), "residuals_copied");
    assert!(same_bits(sol.solve_time, info.solve_time), "solve_time_copied");
    assert!(sol.x.len() == 2 && sol.s.len() == 2 && sol.z.len() == 2, "lengths");
    let mut i = 0;
    while i < 2 {
        // tau = kappa = 1 and unit equilibration: the vectors come back unchanged (NaN stays NaN)
        assert!(sol.x[i] == x[i] || (x[i].is_nan() && sol.x[i].is_nan()), "solution_x");
        assert!(sol.z[i] == z[i] || (z[i].is_nan() && sol.z[i].is_nan()), "solution_z");
        assert!(sol.s[i] == s[i] || (s[i].is_nan() && sol.s[i].is_nan()), "solution_s");
        i += 1;
    }
    kani::cover!(inf, "infeasible status");
    kani::cover!(info.status == SolverStatus::Solved && info.cost_primal == 3.0, "solved status");
    kani::cover!(info.status == SolverStatus::MaxTime, "limit status");
}

// ---------------------------------------------------------------------------------------------
// C01.scale_invariance — the termination quantities are computed on the un-equilibrated,
// de-homogenised iterate.  The REAL DefaultResiduals::update and DefaultInfo::update are run twice:
//   (A) on internally scaled data  (c D P D, E A D, c D q, E b)  with the scaled iterate (x,z,s,tau,kappa)
//   (B) on the user's data with identity scaling and the user's iterate (x d/tau, z e/(c tau), s/(e tau)), tau = 1
// and every reported quantity must be BIT-IDENTICAL.  Data and iterate are small integers and the
// scalings powers of two, so every product is exact in f64 and a wrong d<->dinv, e<->einv, missing
// c or wrong power of tau changes some quantity.
// ---------------------------------------------------------------------------------------------
pub fn stub_total_time(_t: &clarabel::timers::Timers) -> std::time::Duration {
    std::time::Duration::ZERO
}
pub fn stub_random_state() -> std::collections::hash_map::RandomState {
    unsafe { std::mem::transmute::<[u64; 2], std::collections::hash_map::RandomState>([1, 2]) }
}

fn pow2() -> f64 {
    let k: u8 = kani::any();
    kani::assume(k < 5);
    match k {
        0 => 0.25,
        1 => 0.5,
        2 => 1.0,
        3 => 2.0,
        _ => 4.0,
    }
}

// the scalings are enumerated (concrete), one harness per combination: with symbolic power-of-two scalings
// *and* symbolic data the query (two f64 pipelines with ~40 products, 10 square roots) did not finish in
// 50 min.  Each combination distinguishes d from 1/d, e from 1/e, c from 1/c and the powers of tau.
const SCALINGS: [(f64, f64, f64, f64); 3] = [(2.0, 0.5, 4.0, 2.0), (0.25, 4.0, 0.5, 1.0), (4.0, 2.0, 0.25, 4.0)];

fn scale_invariance<const M: usize>(k: usize) {
    let (d, e0, c, tau) = SCALINGS[k];
    scale_invariance_at::<M>(d, e0, c, tau);
}

fn scale_invariance_at<const M: usize>(d: f64, e0: f64, c: f64, tau: f64) {
    use clarabel::solver::traits::Residuals;
    // user data: P = [p], q = [q], A = a (M x 1 dense), b
    let p = small_f64(3);
    kani::assume(p >= 0.0);
    let q = small_f64(3);
    let mut a = [0f64; M];
    let mut b = [0f64; M];
    let mut i = 0;
    while i < M {
        a[i] = small_f64(3);
        b[i] = small_f64(3);
        i += 1;
    }
    // scaled iterate
    let kappa = small_f64(3);
    let mut e = [0f64; M];
    let mut x = [0f64; 1];
    let mut z = [0f64; M];
    let mut s = [0f64; M];
    x[0] = small_f64(3);
    let mut i = 0;
    while i < M {
        e[i] = if i == 0 { e0 } else { 1.0 / e0 };
        z[i] = small_f64(3);
        s[i] = small_f64(3);
        i += 1;
    }
    let mut rows = Vec::with_capacity(M);
    let mut i = 0;
    while i < M {
        rows.push(i);
        i += 1;
    }
    let Pm = CscMatrix::<f64> { m: 1, n: 1, colptr: vec![0, 1], rowval: vec![0], nzval: vec![p] };
    let Am = CscMatrix::<f64> { m: M, n: 1, colptr: vec![0, M], rowval: rows, nzval: a.to_vec() };
    let cones = [SupportedConeT::NonnegativeConeT(M)];
    let mut st = settings_f64();
    st.presolve_enable = false;
    let timers = clarabel::timers::Timers::default();

    // ---- run B: user's presentation
    let mut data_b = DefaultProblemData::<f64>::new(&Pm, &[q], &Am, &b, &cones, &st);
    let mut vb = DefaultVariables::<f64>::new(1, M);
    vb.x[0] = x[0] * d / tau;
    let mut i = 0;
    while i < M {
        vb.z[i] = z[i] * e[i] / (c * tau);
        vb.s[i] = s[i] / (e[i] * tau);
        i += 1;
    }
    vb.τ = 1.0;
    vb.κ = kappa / tau;
    let mut rb = DefaultResiduals::<f64>::new(1, M);
    rb.update(&vb, &data_b);
    let mut ib = dh::info_new_sink::<f64>();
    ib.update(&mut data_b, &vb, &rb, &timers);

    // ---- run A: internal (equilibrated, homogenised) presentation
    let mut data_a = DefaultProblemData::<f64>::new(&Pm, &[q], &Am, &b, &cones, &st);
    data_a.P.nzval[0] = c * d * p * d;
    data_a.q[0] = c * d * q;
    let mut i = 0;
    while i < M {
        data_a.A.nzval[i] = e[i] * a[i] * d;
        data_a.b[i] = e[i] * b[i];
        data_a.equilibration.e[i] = e[i];
        data_a.equilibration.einv[i] = 1.0 / e[i];
        i += 1;
    }
    data_a.equilibration.d[0] = d;
    data_a.equilibration.dinv[0] = 1.0 / d;
    data_a.equilibration.c = c;
    let mut va = DefaultVariables::<f64>::new(1, M);
    va.x[0] = x[0];
    va.z.copy_from_slice(&z);
    va.s.copy_from_slice(&s);
    va.τ = tau;
    va.κ = kappa;
    let mut ra = DefaultResiduals::<f64>::new(1, M);
    ra.update(&va, &data_a);
    let mut ia = dh::info_new_sink::<f64>();
    ia.update(&mut data_a, &va, &ra, &timers);

    assert!(same_bits(ia.cost_primal, ib.cost_primal), "cost_primal_is_the_user_objective");
    assert!(same_bits(ia.cost_dual, ib.cost_dual), "cost_dual_is_the_user_dual_objective");
    assert!(same_bits(ia.res_primal, ib.res_primal), "res_primal_is_computed_on_the_unscaled_iterate");
    assert!(same_bits(ia.res_dual, ib.res_dual), "res_dual_is_computed_on_the_unscaled_iterate");
    assert!(same_bits(ia.gap_abs, ib.gap_abs) && same_bits(ia.gap_rel, ib.gap_rel), "gaps_are_computed_on_the_unscaled_iterate");
    assert!(same_bits(ia.ktratio, ib.ktratio), "ktratio_is_scale_free");
    // the user's objective, written out: q'x + x'Px/2  and  -b'z - x'Px/2
    let xu = vb.x[0];
    let mut bz = 0.0;
    let mut i = 0;
    while i < M {
        bz += b[i] * vb.z[i];
        i += 1;
    }
    assert!(ib.cost_primal == q * xu + (xu * p * xu) / 2.0, "cost_primal_formula");
    assert!(ib.cost_dual == -bz - (xu * p * xu) / 2.0, "cost_dual_formula");
    kani::cover!(x[0] == 3.0 && s[0] == 2.0 && p == 1.0 && a[0] == -2.0, "non-trivial iterate");
}

/// The same comparison over GF(13) with *symbolic* scalings d, e (every non-zero field value), c = tau = 1:
/// run A on the equilibrated presentation (D P D, E A D, D q, E b; iterate x, z, s), run B on the user's
/// presentation with identity scaling and the iterate (x d, z e, s / e).  Every product is exact in the field;
/// sqrt is the canonical root, max/min/abs are the same functions of equal arguments in both runs, so every
/// reported quantity must be EQUAL.  Swapping d<->dinv or e<->einv anywhere in DefaultInfo::update /
/// DefaultResiduals::update changes an argument.  (c and tau stay 1: `sqrt(y^2 / t^2) = sqrt(y^2) / t` holds
/// for positive reals but not for canonical roots in a field; those powers are covered by the f64 harnesses.)
fn scale_invariance_fp<const M: usize>() {
    use clarabel::solver::traits::Residuals;
    unsafe {
        crate::fp::CANONICAL_SQRT = true;
    }
    let p = F::any();
    let q = F::any();
    let d = F::any_nonzero();
    let mut a = [F::new(0); M];
    let mut b = [F::new(0); M];
    let mut e = [F::new(1); M];
    let mut z = [F::new(0); M];
    let mut sv = [F::new(0); M];
    let x = F::any();
    let kappa = F::any();
    let mut i = 0;
    while i < M {
        a[i] = F::any();
        b[i] = F::any();
        e[i] = F::any_nonzero();
        z[i] = F::any();
        sv[i] = F::any();
        i += 1;
    }
    let mut rows = Vec::with_capacity(M);
    let mut i = 0;
    while i < M {
        rows.push(i);
        i += 1;
    }
    let Pm = CscMatrix::<F> { m: 1, n: 1, colptr: vec![0, 1], rowval: vec![0], nzval: vec![p] };
    let Am = CscMatrix::<F> { m: M, n: 1, colptr: vec![0, M], rowval: rows, nzval: a.to_vec() };
    let cones = [SupportedConeT::NonnegativeConeT(M)];
    let mut st = settings_t::<F>();
    st.presolve_enable = false;
    st.equilibrate_enable = false;
    let timers = clarabel::timers::Timers::default();

    // ---- run B: user's presentation
    let mut data_b = DefaultProblemData::<F>::new(&Pm, &[q], &Am, &b, &cones, &st);
    // (the constructor caps b at the infinity bound with T::min - an order comparison that means nothing in a
    // field: b is written back after construction, as in run A; first version of this harness: false alarm)
    data_b.b.copy_from_slice(&b);
    let mut vb = DefaultVariables::<F>::new(1, M);
    vb.x[0] = x * d;
    let mut i = 0;
    while i < M {
        vb.z[i] = z[i] * e[i];
        vb.s[i] = sv[i] / e[i];
        i += 1;
    }
    vb.τ = F::new(1);
    vb.κ = kappa;
    let mut rb = DefaultResiduals::<F>::new(1, M);
    rb.update(&vb, &data_b);
    let mut ib = dh::info_new_sink::<F>();
    ib.update(&mut data_b, &vb, &rb, &timers);

    // ---- run A: equilibrated presentation
    let mut data_a = DefaultProblemData::<F>::new(&Pm, &[q], &Am, &b, &cones, &st);
    data_a.P.nzval[0] = d * p * d;
    data_a.q[0] = d * q;
    let mut i = 0;
    while i < M {
        data_a.A.nzval[i] = e[i] * a[i] * d;
        data_a.b[i] = e[i] * b[i];
        data_a.equilibration.e[i] = e[i];
        data_a.equilibration.einv[i] = F::new(1) / e[i];
        i += 1;
    }
    data_a.equilibration.d[0] = d;
    data_a.equilibration.dinv[0] = F::new(1) / d;
    let mut va = DefaultVariables::<F>::new(1, M);
    va.x[0] = x;
    va.z.copy_from_slice(&z);
    va.s.copy_from_slice(&sv);
    va.τ = F::new(1);
    va.κ = kappa;
    let mut ra = DefaultResiduals::<F>::new(1, M);
    ra.update(&va, &data_a);
    let mut ia = dh::info_new_sink::<F>();
    ia.update(&mut data_a, &va, &ra, &timers);

    assert!(ia.cost_primal == ib.cost_primal, "cost_primal_is_the_user_objective");
    assert!(ia.cost_dual == ib.cost_dual, "cost_dual_is_the_user_dual_objective");
    assert!(ia.res_primal == ib.res_primal, "res_primal_is_computed_on_the_unscaled_iterate");
    assert!(ia.res_dual == ib.res_dual, "res_dual_is_computed_on_the_unscaled_iterate");
    assert!(ia.res_primal_inf == ib.res_primal_inf, "res_primal_inf_is_computed_on_the_unscaled_iterate");
    assert!(ia.res_dual_inf == ib.res_dual_inf, "res_dual_inf_is_computed_on_the_unscaled_iterate");
    assert!(ia.gap_abs == ib.gap_abs && ia.gap_rel == ib.gap_rel, "gaps_are_computed_on_the_unscaled_iterate");
    assert!(ia.ktratio == ib.ktratio, "ktratio_is_scale_free");
    let xu = vb.x[0];
    let mut bz = F::new(0);
    let mut i = 0;
    while i < M {
        bz = bz + b[i] * vb.z[i];
        i += 1;
    }
    let two = F::new(2);
    assert!(ib.cost_primal == q * xu + (xu * p * xu) / two, "cost_primal_formula");
    assert!(ib.cost_dual == -bz - (xu * p * xu) / two, "cost_dual_formula");
    kani::cover!(d.0 == 2 && e[0].0 == 3 && sv[0].0 == 5 && x.0 == 7, "non-trivial scaling and iterate");
}

#[kani::proof]
#[kani::unwind(5)]
#[kani::stub(clarabel::timers::Timers::total_time, stub_total_time)]
#[kani::stub(std::collections::hash_map::RandomState::new, stub_random_state)]
pub fn c01_scale_invariance_fp_m1() {
    scale_invariance_fp::<1>();
}

#[kani::proof]
#[kani::unwind(5)]
#[kani::stub(clarabel::timers::Timers::total_time, stub_total_time)]
#[kani::stub(std::collections::hash_map::RandomState::new, stub_random_state)]
pub fn c01_scale_invariance_fp_m2() {
    scale_invariance_fp::<2>();
}

macro_rules! scale_harness {
    ($name:ident, $m:expr, $k:expr, $unwind:expr) => {
        #[kani::proof]
        #[kani::unwind($unwind)]
        #[kani::stub(clarabel::timers::Timers::total_time, stub_total_time)]
        #[kani::stub(std::collections::hash_map::RandomState::new, stub_random_state)]
        pub fn $name() {
            scale_invariance::<$m>($k);
        }
    };
}
scale_harness!(c01_scale_invariance_m1_a, 1, 0, 4);
scale_harness!(c01_scale_invariance_m1_b, 1, 1, 4);
scale_harness!(c01_scale_invariance_m1_c, 1, 2, 4);
scale_harness!(c01_scale_invariance_m2_a, 2, 0, 5);
