//! C04 (construction-time checks) and C05 (normalisations that make equivalent formulations identical):
//! cone collapsing and the dimension checks.  (P full vs. upper triangle: c16_to_triu_* harnesses.)
use crate::gen::*;
use clarabel::algebra::*;
use clarabel::solver::implementations::default::verif_hooks_solver as sh;
use clarabel::solver::*;
use clarabel::verif_hooks as vh;

/// row-by-row description of a cone list: 1 for a row of the nonnegative orthant (NN cones and
/// 1-dimensional second-order cones), otherwise 100*k + kind for the k-th non-collapsible cone
fn flatten(cones: &[SupportedConeT<f64>], out: &mut [u32; 12]) -> usize {
    let mut n = 0;
    let mut k = 0u32;
    let mut i = 0;
    while i < cones.len() {
        let d = vh::cone_nvars(&cones[i]);
        let tag = match &cones[i] {
            SupportedConeT::NonnegativeConeT(_) => 1,
            SupportedConeT::SecondOrderConeT(1) => 1,
            SupportedConeT::ZeroConeT(_) => 2,
            SupportedConeT::SecondOrderConeT(_) => 3,
            SupportedConeT::ExponentialConeT() => 4,
            _ => 5,
        };
        if d > 0 && tag != 1 {
            k += 1;
        }
        let mut j = 0;
        while j < d {
            out[n] = if tag == 1 { 1 } else { 100 * k + tag };
            n += 1;
            j += 1;
        }
        i += 1;
    }
    n
}

/// cone of a CONCRETE kind k with a symbolic dimension parameter d (1..=2).  The kind has to be concrete:
/// with a symbolic kind CBMC explores `clone()` / drop glue of the `GenPowerConeT(Vec<T>, T)` variant with an
/// unconstrained vector (two symbolic cones: out of memory at 16 GB, DESIGN.md §6.2 item 15).
fn kind_cone(k: usize, d: usize) -> SupportedConeT<f64> {
    match k {
        0 => SupportedConeT::ZeroConeT(0),
        1 => SupportedConeT::ZeroConeT(d),
        2 => SupportedConeT::NonnegativeConeT(0),
        3 => SupportedConeT::NonnegativeConeT(d),
        4 => SupportedConeT::SecondOrderConeT(0),
        5 => SupportedConeT::SecondOrderConeT(1),
        6 => SupportedConeT::SecondOrderConeT(1 + d),
        7 => SupportedConeT::ExponentialConeT(),
        _ => SupportedConeT::PowerConeT(0.5),
    }
}
const KINDS: usize = 9;

fn any_dim() -> usize {
    let d: usize = kani::any();
    kani::assume(d >= 1 && d <= 2);
    d
}

/// C04.collapse — no panic; no empty cone, no SOC(1), no two adjacent NN cones in the output;
/// every constraint row keeps its cone (rows of collapsed cones become nonnegative rows), in order.
/// Three cones: first kind K0 (one harness each), the other two kinds enumerated, dimensions symbolic.
fn collapse3(k0: usize) {
    let mut seen_all_nn = false;
    let mut seen_none = false;
    let mut seen_empty = false;
    let mut k1 = 0;
    while k1 < KINDS {
        let mut k2 = 0;
        while k2 < KINDS {
            let cones = [kind_cone(k0, any_dim()), kind_cone(k1, any_dim()), kind_cone(k2, any_dim())];
            let out = vh::new_collapsed(&cones);
            let mut a = [0u32; 12];
            let mut b = [0u32; 12];
            let na = flatten(&cones, &mut a);
            let nb = flatten(&out, &mut b);
            assert!(na == nb, "total_number_of_rows_preserved");
            let mut i = 0;
            while i < 12 {
                if i < na {
                    assert!(a[i] == b[i], "every_row_keeps_its_cone_kind_and_order");
                }
                i += 1;
            }
            let mut i = 0;
            while i < out.len() {
                assert!(vh::cone_nvars(&out[i]) > 0, "no_empty_cone_in_the_output");
                assert!(out[i] != SupportedConeT::SecondOrderConeT(1), "no_singleton_second_order_cone_in_the_output");
                if i > 0 {
                    assert!(!(is_nn(&out[i - 1]) && is_nn(&out[i])), "adjacent_nonnegative_cones_are_merged");
                }
                i += 1;
            }
            assert!(out.len() <= 3);
            seen_all_nn |= out.len() == 1 && na >= 3 && is_nn(&out[0]);
            seen_none |= out.len() == 3;
            seen_empty |= out.len() == 0;
            k2 += 1;
        }
        k1 += 1;
    }
    kani::cover!(seen_all_nn, "opt: everything collapses into one nonnegative cone");
    kani::cover!(seen_none, "opt: nothing collapses");
    kani::cover!(seen_empty, "opt: only empty cones");
    kani::cover!(true, "all kind combinations visited");
}

macro_rules! collapse_harness {
    ($name:ident, $k0:expr) => {
        #[kani::proof]
        #[kani::unwind(14)]
        pub fn $name() {
            collapse3($k0);
        }
    };
}
collapse_harness!(c04_collapse_k0, 0);
collapse_harness!(c04_collapse_k1, 1);
collapse_harness!(c04_collapse_k2, 2);
collapse_harness!(c04_collapse_k3, 3);
collapse_harness!(c04_collapse_k4, 4);
collapse_harness!(c04_collapse_k5, 5);
collapse_harness!(c04_collapse_k6, 6);
collapse_harness!(c04_collapse_k7, 7);
collapse_harness!(c04_collapse_k8, 8);

/// C05.nn_merge — splitting a nonnegative cone (also with an empty cone in between) gives the same internal
/// cone list as the merged formulation, hence the identical internal problem.  Head / tail kinds enumerated
/// (zero, nonnegative, second-order, exponential), the filler kind per harness, all dimensions symbolic.
fn nn_split_merge(filler_kind: usize) {
    const HT: [usize; 4] = [1, 3, 6, 7];
    let mut seen = false;
    let mut h = 0;
    while h < 4 {
        let mut t = 0;
        while t < 4 {
            let a: usize = kani::any();
            let b: usize = kani::any();
            kani::assume(a <= 3 && b <= 3);
            let (dh_, dt_) = (any_dim(), any_dim());
            let split = [kind_cone(HT[h], dh_), SupportedConeT::NonnegativeConeT(a), kind_cone(filler_kind, 1), SupportedConeT::NonnegativeConeT(b), kind_cone(HT[t], dt_)];
            let merged = [kind_cone(HT[h], dh_), SupportedConeT::NonnegativeConeT(a + b), kind_cone(HT[t], dt_)];
            let o1 = vh::new_collapsed(&split);
            let o2 = vh::new_collapsed(&merged);
            assert!(o1.len() == o2.len(), "split_and_merged_formulations_collapse_to_the_same_length");
            let mut i = 0;
            while i < o1.len() {
                assert!(o1[i] == o2[i], "split_and_merged_formulations_collapse_to_the_same_cones");
                i += 1;
            }
            seen |= a == 2 && b == 1 && o1.len() == 3;
            t += 1;
        }
        h += 1;
    }
    // a 1-dimensional second-order cone is the same as a nonnegative row
    let a: usize = kani::any();
    kani::assume(a <= 3);
    let soc1: [SupportedConeT<f64>; 2] = [SupportedConeT::NonnegativeConeT(a), SupportedConeT::SecondOrderConeT(1)];
    let o3 = vh::new_collapsed(&soc1);
    assert!(o3.len() == 1 && o3[0] == SupportedConeT::NonnegativeConeT(a + 1), "soc1_is_a_nonnegative_row");
    kani::cover!(seen, "split cone between two other cones");
}

#[kani::proof]
#[kani::unwind(10)]
pub fn c05_nn_split_merge_zero0() {
    nn_split_merge(0);
}
#[kani::proof]
#[kani::unwind(10)]
pub fn c05_nn_split_merge_nn0() {
    nn_split_merge(2);
}
#[kani::proof]
#[kani::unwind(10)]
pub fn c05_nn_split_merge_soc0() {
    nn_split_merge(4);
}

/// problem pieces with symbolic *dimensions* (only the dimension fields are read by the check)
fn dims_setup() -> (CscMatrix<f64>, usize, CscMatrix<f64>, usize, [SupportedConeT<f64>; 2], bool) {
    let (pm, pn, am, an, nq, nb): (usize, usize, usize, usize, usize, usize) = kani::any();
    kani::assume(pm <= 3 && pn <= 3 && am <= 3 && an <= 3 && nq <= 3 && nb <= 3);
    let P = CscMatrix::<f64> { m: pm, n: pn, colptr: vec![0; 4], rowval: vec![], nzval: vec![] };
    let A = CscMatrix::<f64> { m: am, n: an, colptr: vec![0; 4], rowval: vec![], nzval: vec![] };
    let cones = [any_cone(3), any_cone(3)];
    let p = vh::cone_nvars(&cones[0]) + vh::cone_nvars(&cones[1]);
    let consistent = nb == am && p == nb && nq == an && nq == pn && pm == pn;
    (P, nq, A, nb, cones, consistent)
}

/// C04.dims — inconsistent dimensions are rejected at construction (documented panic) ...
#[kani::proof]
#[kani::unwind(5)]
#[kani::should_panic]
pub fn c04_dims_inconsistent_panics() {
    let (P, nq, A, nb, cones, consistent) = dims_setup();
    kani::assume(!consistent);
    let q = [0.0f64; 3];
    let b = [0.0f64; 3];
    sh::check_dimensions(&P, &q[..nq], &A, &b[..nb], &cones);
    kani::cover!(true, "never: inconsistent dimensions accepted");
}

/// ... and consistent ones are accepted
#[kani::proof]
#[kani::unwind(5)]
pub fn c04_dims_consistent_accepted() {
    let (P, nq, A, nb, cones, consistent) = dims_setup();
    kani::assume(consistent);
    let q = [0.0f64; 3];
    let b = [0.0f64; 3];
    sh::check_dimensions(&P, &q[..nq], &A, &b[..nb], &cones);
    kani::cover!(nb == 3 && nq == 2, "consistent dimensions accepted");
}
