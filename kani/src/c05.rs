//! C04 (construction-time checks) and C05 (normalisations that make equivalent formulations identical):
//! cone collapsing and the dimension checks.  (P full vs. upper triangle: c16_to_triu_* harnesses.)
use crate::gen::*;
use clarabel::algebra::*;
use clarabel::solver::implementations::default::verif_hooks_solver as sh;
use clarabel::solver::*;
use clarabel::verif_hooks as vh;

/// row-by-row description of a cone list: 1 for a row of the nonnegative orthant (NN cones and
/// 1-dimensional second-order cones), otherwise 100*k + kind for the k-th non-collapsible cone
fn flatten(cones: &[SupportedConeT<f64>], out: &mut [u32; 12]) -> usize {
    let mut n = 0;
    let mut k = 0u32;
    let mut i = 0;
    while i < cones.len() {
        let d = vh::cone_nvars(&cones[i]);
        let tag = match &cones[i] {
            SupportedConeT::NonnegativeConeT(_) => 1,
            SupportedConeT::SecondOrderConeT(1) => 1,
            SupportedConeT::ZeroConeT(_) => 2,
            SupportedConeT::SecondOrderConeT(_) => 3,
            SupportedConeT::ExponentialConeT() => 4,
            _ => 5,
        };
        if d > 0 && tag != 1 {
            k += 1;
        }
        let mut j = 0;
        while j < d {
            out[n] = if tag == 1 { 1 } else { 100 * k + tag };
            n += 1;
            j += 1;
        }
        i += 1;
    }
    n
}

/// C04.collapse — no panic; no empty cone, no SOC(1), no two adjacent NN cones in the output;
/// every constraint row keeps its cone (rows of collapsed cones become nonnegative rows), in order
#[kani::proof]
#[kani::unwind(14)]
pub fn c04_collapse() {
    let cones = [any_cone(2), any_cone(2), any_cone(2), any_cone(2)];
    let out = vh::new_collapsed(&cones);
    let mut a = [0u32; 12];
    let mut b = [0u32; 12];
    let na = flatten(&cones, &mut a);
    let nb = flatten(&out, &mut b);
    assert!(na == nb, "total_number_of_rows_preserved");
    let mut i = 0;
    while i < 12 {
        if i < na {
            assert!(a[i] == b[i], "every_row_keeps_its_cone_kind_and_order");
        }
        i += 1;
    }
    let mut i = 0;
    while i < out.len() {
        assert!(vh::cone_nvars(&out[i]) > 0, "no_empty_cone_in_the_output");
        assert!(out[i] != SupportedConeT::SecondOrderConeT(1), "no_singleton_second_order_cone_in_the_output");
        if i > 0 {
            assert!(!(is_nn(&out[i - 1]) && is_nn(&out[i])), "adjacent_nonnegative_cones_are_merged");
        }
        i += 1;
    }
    assert!(out.len() <= 4);
    kani::cover!(out.len() == 1 && na == 6, "everything collapses into one nonnegative cone");
    kani::cover!(out.len() == 4, "nothing collapses");
    kani::cover!(out.len() == 0, "only empty cones");
}

/// C05.nn_merge — splitting a nonnegative cone (also with empty cones / SOC(1) in between) gives the
/// same internal cone list as the merged formulation, hence the identical internal problem
#[kani::proof]
#[kani::unwind(10)]
pub fn c05_nn_split_merge() {
    let a: usize = kani::any();
    let b: usize = kani::any();
    kani::assume(a <= 3 && b <= 3);
    let head = any_cone(2);
    let tail = any_cone(2);
    let filler_kind: u8 = kani::any();
    kani::assume(filler_kind < 3);
    let filler = match filler_kind {
        0 => SupportedConeT::ZeroConeT(0),
        1 => SupportedConeT::NonnegativeConeT(0),
        _ => SupportedConeT::SecondOrderConeT(0),
    };
    let split = [head.clone(), SupportedConeT::NonnegativeConeT(a), filler, SupportedConeT::NonnegativeConeT(b), tail.clone()];
    let merged = [head, SupportedConeT::NonnegativeConeT(a + b), tail];
    let o1 = vh::new_collapsed(&split);
    let o2 = vh::new_collapsed(&merged);
    assert!(o1.len() == o2.len(), "split_and_merged_formulations_collapse_to_the_same_length");
    let mut i = 0;
    while i < o1.len() {
        assert!(o1[i] == o2[i], "split_and_merged_formulations_collapse_to_the_same_cones");
        i += 1;
    }
    // a 1-dimensional second-order cone is the same as a nonnegative row
    let soc1: [SupportedConeT<f64>; 2] = [SupportedConeT::NonnegativeConeT(a), SupportedConeT::SecondOrderConeT(1)];
    let o3 = vh::new_collapsed(&soc1);
    assert!(o3.len() == 1 && o3[0] == SupportedConeT::NonnegativeConeT(a + 1), "soc1_is_a_nonnegative_row");
    kani::cover!(a == 2 && b == 1 && o1.len() == 3, "split cone between two other cones");
}

/// problem pieces with symbolic *dimensions* (only the dimension fields are read by the check)
fn dims_setup() -> (CscMatrix<f64>, usize, CscMatrix<f64>, usize, [SupportedConeT<f64>; 2], bool) {
    let (pm, pn, am, an, nq, nb): (usize, usize, usize, usize, usize, usize) = kani::any();
    kani::assume(pm <= 3 && pn <= 3 && am <= 3 && an <= 3 && nq <= 3 && nb <= 3);
    let P = CscMatrix::<f64> { m: pm, n: pn, colptr: vec![0; 4], rowval: vec![], nzval: vec![] };
    let A = CscMatrix::<f64> { m: am, n: an, colptr: vec![0; 4], rowval: vec![], nzval: vec![] };
    let cones = [any_cone(3), any_cone(3)];
    let p = vh::cone_nvars(&cones[0]) + vh::cone_nvars(&cones[1]);
    let consistent = nb == am && p == nb && nq == an && nq == pn && pm == pn;
    (P, nq, A, nb, cones, consistent)
}

/// C04.dims — inconsistent dimensions are rejected at construction (documented panic) ...
#[kani::proof]
#[kani::unwind(5)]
#[kani::should_panic]
pub fn c04_dims_inconsistent_panics() {
    let (P, nq, A, nb, cones, consistent) = dims_setup();
    kani::assume(!consistent);
    let q = [0.0f64; 3];
    let b = [0.0f64; 3];
    sh::check_dimensions(&P, &q[..nq], &A, &b[..nb], &cones);
    kani::cover!(true, "never: inconsistent dimensions accepted");
}

/// ... and consistent ones are accepted
#[kani::proof]
#[kani::unwind(5)]
pub fn c04_dims_consistent_accepted() {
    let (P, nq, A, nb, cones, consistent) = dims_setup();
    kani::assume(consistent);
    let q = [0.0f64; 3];
    let b = [0.0f64; 3];
    sh::check_dimensions(&P, &q[..nq], &A, &b[..nb], &cones);
    kani::cover!(nb == 3 && nq == 2, "consistent dimensions accepted");
}
