//! C20 — output routing: with verbose off nothing is written; bytes are routed faithfully to the
//! configured target.  Everything that *formats numbers* is outside the claim (string formatting
//! is not executable by the model checker at a useful bound).
use crate::gen::*;
use clarabel::algebra::*;
use clarabel::io::ConfigurablePrintTarget;
use clarabel::solver::implementations::default::verif_hooks as dh;
use clarabel::solver::traits::InfoPrint;
use clarabel::solver::*;
use clarabel::verif_hooks as vh;
use clarabel::verif_hooks::cones::verif_hooks_cc as cc;

pub fn stub_random_state() -> std::collections::hash_map::RandomState {
    unsafe { std::mem::transmute::<[u64; 2], std::collections::hash_map::RandomState>([1, 2]) }
}

// Formatting is not the subject here and is what makes the goto program explode (float-to-decimal
// tables etc. are statically reachable from the verbose branches).  With these stubs any *attempt* to
// format sets a ghost flag, which the silence harness asserts to be false.
static mut FORMAT_CALLS: u32 = 0;
pub fn stub_fmt_write(_out: &mut dyn core::fmt::Write, _args: core::fmt::Arguments<'_>) -> core::fmt::Result {
    unsafe {
        FORMAT_CALLS += 1;
    }
    Ok(())
}
pub fn stub_fmt_format(_args: core::fmt::Arguments<'_>) -> String {
    unsafe {
        FORMAT_CALLS += 1;
    }
    String::new()
}

/// verbose = false: none of the four print entry points writes a byte, whatever the state
#[kani::proof]
#[kani::unwind(5)]
#[kani::stub(std::collections::hash_map::RandomState::new, stub_random_state)]
#[kani::stub(std::fmt::write, stub_fmt_write)]
#[kani::stub(std::fmt::format, stub_fmt_format)]
pub fn c20_silent() {
    let mut info = crate::verdict::any_info();
    info.status = crate::verdict::any_status();
    dh::info_print_to_buffer(&mut info);
    let mut st = crate::verdict::any_settings();
    st.verbose = false;
    let P = CscMatrix::<f64>::zeros((1, 1));
    let A = CscMatrix::<f64>::zeros((2, 1));
    let cones_t = [SupportedConeT::NonnegativeConeT(2)];
    let mut ds = settings_f64();
    ds.presolve_enable = false;
    let mut data = DefaultProblemData::<f64>::new(&P, &[0.0], &A, &[0.0, 0.0], &cones_t, &ds);
    // with or without an active presolve reduction (it has its own message in the configuration header)
    if kani::any() {
        dh::VPresolver::<f64>::from_parts(&cones_t, Some(vec![true, false]), 2, 1, 1e20).install(&mut data);
    }
    let reduced = dh::data_is_presolved(&data);
    crate::stack_composite!(cones, f64, [SupportedConeT::<f64>::NonnegativeConeT(2)]);
    assert!(info.print_configuration(&st, &data, &cones).is_ok());
    assert!(info.print_status_header(&st).is_ok());
    assert!(info.print_status(&st).is_ok());
    assert!(info.print_footer(&st).is_ok());
    assert!(dh::info_buffer_len(&info) == Some(0), "nothing_written_when_verbose_is_off");
    assert!(unsafe { FORMAT_CALLS } == 0, "nothing_is_even_formatted_when_verbose_is_off");
    kani::cover!(info.status == SolverStatus::Solved && info.iterations == 7 && reduced, "presolve reduction active");
    kani::cover!(!reduced, "no presolve reduction");
}

static mut STREAM_BUF: [u8; 16] = [0; 16];
static mut STREAM_N: usize = 0;
struct W;
impl std::io::Write for W {
    fn write(&mut self, buf: &[u8]) -> std::io::Result<usize> {
        unsafe {
            let mut i = 0;
            while i < buf.len() {
                STREAM_BUF[STREAM_N] = buf[i];
                STREAM_N += 1;
                i += 1;
            }
        }
        Ok(buf.len())
    }
    fn flush(&mut self) -> std::io::Result<()> {
        Ok(())
    }
}

/// the bytes delivered to a buffer and to a stream are exactly the bytes written, in order;
/// the sink accepts everything; get_print_buffer works only for the buffer target
#[kani::proof]
#[kani::unwind(8)]
#[kani::stub(std::fmt::write, stub_fmt_write)]
#[kani::stub(std::fmt::format, stub_fmt_format)]
pub fn c20_route() {
    let a: [u8; 3] = kani::any();
    let b: [u8; 2] = kani::any();
    let mut i = 0;
    while i < 3 {
        kani::assume(a[i] < 128);
        i += 1;
    }
    kani::assume(b[0] < 128 && b[1] < 128);
    // buffer
    let mut t = vh::VPrintTarget::new_sink();
    assert!(t.kind() == 4);
    let r = t.get_print_buffer();
    let is_err = r.is_err();
    core::mem::forget(r); // io::Error's bit-packed representation: its drop glue is not tractable
    assert!(is_err, "no_buffer_configured_is_an_error");
    t.print_to_buffer();
    assert!(t.kind() == 2, "print_to_buffer_switches_target");
    assert!(t.write(&a).ok() == Some(3), "write_reports_all_bytes");
    assert!(t.write(&[]).ok() == Some(0));
    assert!(t.write(&b).ok() == Some(2));
    assert!(t.flush().is_ok());
    let bytes = t.buffer_bytes().unwrap();
    assert!(bytes.len() == 5, "buffer_holds_every_byte");
    assert!(bytes[0] == a[0] && bytes[1] == a[1] && bytes[2] == a[2] && bytes[3] == b[0] && bytes[4] == b[1], "buffer_is_the_concatenation_in_order");
    // stream
    let mut s = vh::VPrintTarget::new_buffer();
    s.print_to_stream(Box::new(W));
    assert!(s.kind() == 3, "print_to_stream_switches_target");
    assert!(s.write(&a).ok() == Some(3) && s.write(&b).ok() == Some(2));
    unsafe {
        assert!(STREAM_N == 5, "stream_receives_every_byte");
        assert!(STREAM_BUF[0] == a[0] && STREAM_BUF[2] == a[2] && STREAM_BUF[3] == b[0] && STREAM_BUF[4] == b[1], "stream_receives_identical_bytes_in_order");
    }
    let r = s.get_print_buffer();
    let is_err = r.is_err();
    core::mem::forget(r);
    assert!(is_err, "stream_target_has_no_buffer");
    // sink
    s.print_to_sink();
    assert!(s.kind() == 4 && s.write(&a).ok() == Some(3), "sink_accepts_everything");
    unsafe {
        assert!(STREAM_N == 5, "nothing_reaches_the_old_stream_after_switching");
    }
    // cloning a buffer target copies its contents; cloning a stream degrades to a sink
    let c = t.clone_target();
    assert!(c.kind() == 2 && c.buffer_bytes().unwrap().len() == 5);
    kani::cover!(a[0] == b'i' && b[1] == b'\n');
}
