//! C09 — infinite bounds are removed and restored transparently.
//!
//! Cone layouts are enumerated (concrete), everything else is symbolic.
use crate::gen::*;
use clarabel::algebra::*;
use clarabel::solver::implementations::default::verif_hooks as dh;
use clarabel::solver::*;
use clarabel::verif_hooks as vh;

const M: usize = 4;

/// concrete cone layouts with 4 rows (rule 3 of DESIGN.md: shapes enumerated, contents symbolic)
fn layout(id: u8) -> Vec<SupportedConeT<f64>> {
    use SupportedConeT::*;
    match id {
        0 => vec![NonnegativeConeT(1), ZeroConeT(1), NonnegativeConeT(2)],
        1 => vec![ExponentialConeT(), NonnegativeConeT(1)],
        2 => vec![NonnegativeConeT(4)],
        3 => vec![ZeroConeT(2), NonnegativeConeT(2)],
        4 => vec![NonnegativeConeT(1), PowerConeT(0.5)],
        5 => vec![NonnegativeConeT(2), SecondOrderConeT(2)],
        6 => vec![NonnegativeConeT(1), NonnegativeConeT(0), SecondOrderConeT(1), NonnegativeConeT(2)],
        _ => vec![SecondOrderConeT(3), ZeroConeT(1)],
    }
}

/// literal version of `row_in_nn` per layout (keeps the drop masks of the reduce harnesses concrete for CBMC)
fn layout_nn(id: u8) -> [bool; M] {
    match id {
        0 => [true, false, true, true],
        1 => [false, false, false, true],
        2 => [true, true, true, true],
        3 => [false, false, true, true],
        4 => [true, false, false, false],
        5 => [true, true, false, false],
        6 => [true, false, true, true],
        _ => [false, false, false, false],
    }
}

/// reference: is row i inside a nonnegative cone?
fn row_in_nn(cones: &[SupportedConeT<f64>], i: usize) -> bool {
    let mut start = 0;
    let mut k = 0;
    let mut r = false;
    while k < cones.len() {
        let d = vh::cone_nvars(&cones[k]);
        if i >= start && i < start + d && is_nn(&cones[k]) {
            r = true;
        }
        start += d;
        k += 1;
    }
    r
}

/// C09.map — exactly the rows in a nonnegative cone with b at/above the bound are dropped;
/// the bound is the module-level value in force at construction.
fn map_l(id: u8, bound: f64) {
    // NB: the bound is concrete per harness (1e20 default, 100, 1e-3, 1e300 are enumerated): with a symbolic
    // bound the threshold (1-10eps)*bound is a 53x53-bit symbolic multiplier and the query does not finish
    // in 10 min.  That the *stored* bound is the one in force at construction is decided for a symbolic
    // bound in c09_bound_capture.
    let cones = layout(id);
    let b: [f64; M] = kani::any();
    clarabel::set_infinity(bound);
    let A = CscMatrix::<f64>::zeros((M, 1));
    let settings = settings_f64();
    let p = dh::VPresolver::new(&A, &b, &cones, &settings);
    // a later change of the module-level bound must not affect this presolver
    let other: f64 = kani::any();
    clarabel::set_infinity(other);

    assert!(p.mfull() == M, "mfull_is_user_m");
    assert!(same_bits(p.infbound(), bound), "presolver_stores_bound_in_force_at_construction");
    let lo = bound * (1.0 - 16.0 * f64::EPSILON);
    let mut nkept = 0;
    let mut nn_rows = 0;
    let mut i = 0;
    while i < M {
        let kept = match p.keep_logical() {
            Some(k) => k[i],
            None => true,
        };
        if kept {
            nkept += 1;
        }
        let nn = row_in_nn(&cones, i);
        if nn {
            nn_rows += 1;
        }
        if !nn {
            assert!(kept, "rows_outside_nonnegative_cones_are_never_dropped");
        }
        if nn && b[i] >= bound {
            assert!(!kept, "nn_row_at_or_above_bound_is_dropped");
        }
        if b[i] <= lo || b[i].is_nan() {
            assert!(kept, "row_below_bound_is_kept");
        }
        i += 1;
    }
    assert!(p.mreduced() == nkept, "mreduced_counts_kept_rows");
    assert!(p.count_reduced() == M - nkept, "count_reduced");
    assert!(p.is_reduced() == (nkept < M), "reduce_map_present_iff_something_dropped");
    assert!(p.keep_logical().is_some() == (nkept < M), "reduce_map_present_iff_something_dropped_2");
    kani::cover!(nkept == M && b[0] >= bound && b[M - 1] >= bound || nkept < M, "infinite rhs present");
    kani::cover!(nn_rows > 0 && nkept == M - nn_rows, "opt: every nn row dropped");
    kani::cover!(nn_rows > 1 && nkept == M - 1, "opt: exactly one of several nn rows dropped");
}

/// presolver whose reduction map is driven by a symbolic mask: b[i] = bound where mask, else small
fn presolver_from_mask(cones: &[SupportedConeT<f64>], mask_inf: &[bool; M], bvals: &[f64; M]) -> (dh::VPresolver<f64>, [f64; M]) {
    clarabel::set_infinity(100.0);
    let mut b = *bvals;
    let mut i = 0;
    while i < M {
        if mask_inf[i] {
            b[i] = 100.0;
        }
        i += 1;
    }
    let A = CscMatrix::<f64>::zeros((M, 1));
    let settings = settings_f64();
    (dh::VPresolver::new(&A, &b, cones, &settings), b)
}

/// concrete sparsity patterns of the 4x2 matrix A (select_rows allocates its output with a
/// data-dependent size; CBMC needs concrete allocation sizes, so patterns and drop masks are
/// enumerated by concrete loops inside the harness and only the numeric values are symbolic)
fn pattern(pid: u8) -> (Vec<usize>, Vec<usize>) {
    match pid {
        0 => (vec![0, 4, 8], vec![0, 1, 2, 3, 0, 1, 2, 3]), // dense
        1 => (vec![0, 2, 5], vec![0, 2, 1, 2, 3]),          // mixed
        2 => (vec![0, 0, 3], vec![0, 1, 3]),                // empty first column
        _ => (vec![0, 3, 3], vec![1, 2, 3]),                // empty last column, row 0 empty
    }
}

fn reduce_l(id: u8, pid: u8) {
    use SupportedConeT::*;
    // stack arrays (not Vec): CBMC propagates constants through them, so nvars()/matches! stay concrete
    match id {
        0 => reduce_c(&[NonnegativeConeT(1), ZeroConeT(1), NonnegativeConeT(2)], id, pid),
        1 => reduce_c(&[ExponentialConeT(), NonnegativeConeT(1)], id, pid),
        2 => reduce_c(&[NonnegativeConeT(4)], id, pid),
        3 => reduce_c(&[ZeroConeT(2), NonnegativeConeT(2)], id, pid),
        4 => reduce_c(&[NonnegativeConeT(1), PowerConeT(0.5)], id, pid),
        5 => reduce_c(&[NonnegativeConeT(2), SecondOrderConeT(2)], id, pid),
        _ => reduce_c(&[NonnegativeConeT(1), NonnegativeConeT(0), SecondOrderConeT(1), NonnegativeConeT(2)], id, pid),
    }
}

fn reduce_c(cones: &[SupportedConeT<f64>], id: u8, pid: u8) {
    let nnrow = layout_nn(id);
    let mut i = 0;
    while i < M {
        assert!(nnrow[i] == row_in_nn(cones, i));
        i += 1;
    }
    let (colptr, rowval) = pattern(pid);
    let nnz = rowval.len();
    let mut nzval = vec![0f64; nnz];
    let mut k = 0;
    while k < nnz {
        nzval[k] = small_f64(4);
        k += 1;
    }
    let A = CscMatrix { m: M, n: 2, colptr, rowval, nzval };
    let dA = dense_f64::<M, 2>(&A);
    // finite right-hand sides are concrete and distinct (a symbolic value would make the
    // comparison with the bound, hence the drop mask and every allocation size, symbolic)
    let bvals = [1.0f64, -2.0, 3.0, 0.5];
    let mut reduced_cases = 0;
    let mut code = 0u8;
    while code < 16 {
        // drop mask, restricted to rows inside nonnegative cones (what make_reduction_map can produce,
        // see c09_map_*); the presolver is built from its plain-data fields so that every size is concrete
        let want = [code & 1 != 0, code & 2 != 0, code & 4 != 0, code & 8 != 0];
        code += 1;
        // only masks inside the nonnegative rows are distinct cases
        if (want[0] && !nnrow[0]) || (want[1] && !nnrow[1]) || (want[2] && !nnrow[2]) || (want[3] && !nnrow[3]) {
            continue;
        }
        let mut keep = [true; M];
        let mut b = bvals;
        let mut nkeep = 0;
        let mut i = 0;
        while i < M {
            if want[i] && nnrow[i] {
                keep[i] = false;
                b[i] = 100.0;
            } else {
                nkeep += 1;
            }
            i += 1;
        }
        if nkeep == M {
            continue;
        }
        let p = dh::VPresolver::from_parts(cones, Some(keep.to_vec()), M, nkeep, 100.0);
        reduced_cases += 1;
        let (A2, b2, cones2) = p.presolve(&A, &b, cones);
        // --- A: rows deleted, order preserved, canonical
        assert!(is_canonical(&A2), "reduced_A_is_canonical");
        assert!(A2.n == 2 && A2.m == p.mreduced(), "reduced_A_dimensions");
        assert!(b2.len() == p.mreduced(), "reduced_b_length");
        let dA2 = dense_f64::<M, 2>(&A2);
        let mut r = 0;
        let mut i = 0;
        while i < M {
            if keep[i] {
                assert!(dA2[r][0] == dA[i][0] && dA2[r][1] == dA[i][1], "reduced_A_row_is_original_row");
                assert!(b2[r] == b[i], "reduced_b_entry_is_original_entry");
                r += 1;
            }
            i += 1;
        }
        assert!(r == p.mreduced());
        // --- cones: nn cones shrink by their dropped rows, empty ones vanish, others unchanged in order
        let mut start = 0;
        let mut k = 0;
        let mut out = 0;
        let mut total = 0;
        while k < cones.len() {
            let d = vh::cone_nvars(&cones[k]);
            if is_nn(&cones[k]) {
                let mut nk = 0;
                let mut j = start;
                while j < start + d {
                    if keep[j] {
                        nk += 1;
                    }
                    j += 1;
                }
                if nk > 0 {
                    assert!(out < cones2.len() && cones2[out] == SupportedConeT::NonnegativeConeT(nk), "nn_cone_shrinks_by_dropped_rows");
                    out += 1;
                    total += nk;
                }
            } else {
                assert!(out < cones2.len() && cones2[out] == cones[k], "other_cones_unchanged_in_order");
                out += 1;
                total += d;
            }
            start += d;
            k += 1;
        }
        assert!(out == cones2.len(), "no_extra_cones");
        assert!(total == p.mreduced(), "cone_dims_sum_to_mreduced");
    }
    assert!(reduced_cases > 0);
    kani::cover!(A.nzval[0] == 3.0 && A.nzval[1] == -2.0, "values are symbolic");
}

/// C09.reverse — s and z keep the user's length/order; dropped rows get z = 0, s = stored bound
fn reverse_l(id: u8) {
    let cones = layout(id);
    let mask: [bool; M] = kani::any();
    let bvals = [0f64; M];
    let (p, _b) = presolver_from_mask(&cones, &mask, &bvals);
    kani::assume(p.is_reduced());
    // a later change of the module-level bound must not change the fill value
    clarabel::set_infinity(7.0);
    let keep: [bool; M] = {
        let k = p.keep_logical().unwrap();
        [k[0], k[1], k[2], k[3]]
    };
    // internal (reduced) iterate: only the first mreduced entries of s,z are meaningful; the
    // vectors are over-allocated to the concrete length M (no symbolic-length Vec), arbitrary bits
    let mut v = DefaultVariables::<f64>::new(2, M);
    let s: [f64; M] = kani::any();
    let z: [f64; M] = kani::any();
    let x: [f64; 2] = kani::any();
    v.s.copy_from_slice(&s);
    v.z.copy_from_slice(&z);
    v.x.copy_from_slice(&x);
    let mut sol = DefaultSolution::<f64>::new(2, M);
    p.reverse_presolve(&mut sol, &v);
    assert!(sol.s.len() == M && sol.z.len() == M && sol.x.len() == 2, "solution_lengths_are_user_lengths");
    assert!(same_bits(sol.x[0], x[0]) && same_bits(sol.x[1], x[1]), "x_copied");
    let mut r = 0;
    let mut i = 0;
    while i < M {
        if keep[i] {
            assert!(same_bits(sol.s[i], s[r]) && same_bits(sol.z[i], z[r]), "kept_rows_receive_reduced_entries_in_order");
            r += 1;
        } else {
            assert!(sol.z[i] == 0.0, "dropped_row_has_zero_dual");
            assert!(sol.s[i] == 100.0, "dropped_row_slack_is_bound_in_force_at_construction");
        }
        i += 1;
    }
    kani::cover!(r < M, "some row dropped");
    kani::cover!(!keep[0] && keep[M - 1], "opt: first row dropped, last kept");
}

macro_rules! layouts {
    ($($map:ident $red:ident $rev:ident $id:expr, $bound:expr, $pid:expr;)*) => {$(
        #[kani::proof]
        #[kani::unwind(7)]
        pub fn $map() { map_l($id, $bound); }
        #[kani::proof]
        #[kani::unwind(18)]
        pub fn $red() { reduce_l($id, $pid); }
        #[kani::proof]
        #[kani::unwind(7)]
        pub fn $rev() { reverse_l($id); }
    )*};
}
layouts! {
    c09_map_l0 c09_reduce_l0 c09_reverse_l0 0, 1e20, 1;
    c09_map_l1 c09_reduce_l1 c09_reverse_l1 1, 100.0, 0;
    c09_map_l2 c09_reduce_l2 c09_reverse_l2 2, 1e-3, 2;
    c09_map_l3 c09_reduce_l3 c09_reverse_l3 3, 1e300, 3;
    c09_map_l4 c09_reduce_l4 c09_reverse_l4 4, 1e20, 0;
    c09_map_l5 c09_reduce_l5 c09_reverse_l5 5, 100.0, 1;
    c09_map_l6 c09_reduce_l6 c09_reverse_l6 6, 1e20, 0;
}

/// layout without any nonnegative cone: nothing is ever dropped
#[kani::proof]
#[kani::unwind(7)]
pub fn c09_map_l7() {
    map_l(7, 1e20);
}

#[kani::proof]
#[kani::unwind(18)]
pub fn c09_reduce_l0_dense() {
    reduce_l(0, 0);
}
#[kani::proof]
#[kani::unwind(18)]
pub fn c09_reduce_l6_mixed() {
    reduce_l(6, 1);
}

/// the presolver stores the module-level bound in force at construction (symbolic bound, symbolic later value)
#[kani::proof]
#[kani::unwind(7)]
pub fn c09_bound_capture() {
    let cones = layout(0);
    let b: [f64; M] = kani::any();
    let bound: f64 = kani::any();
    clarabel::set_infinity(bound);
    let A = CscMatrix::<f64>::zeros((M, 1));
    let settings = settings_f64();
    let p = dh::VPresolver::new(&A, &b, &cones, &settings);
    let other: f64 = kani::any();
    clarabel::set_infinity(other);
    assert!(same_bits(p.infbound(), bound), "presolver_stores_bound_in_force_at_construction");
    assert!(same_bits(clarabel::get_infinity(), other));
    kani::cover!(bound == 5.0 && other == 6.0);
}

/// C09.infbound — module-level bound: set/get/default round trip for every f64 bit pattern
#[kani::proof]
pub fn c09_infbound() {
    let v: f64 = kani::any();
    clarabel::set_infinity(v);
    assert!(same_bits(clarabel::get_infinity(), v), "get_returns_what_set_stored");
    clarabel::default_infinity();
    assert!(clarabel::get_infinity() == clarabel::INFINITY_DEFAULT, "default_restores_1e20");
    assert!(clarabel::INFINITY_DEFAULT == 1e20);
    kani::cover!(v.is_nan());
    kani::cover!(v == 5.0);
}

// ---------------------------------------------------------------------------------------------
// C09.cap — through the REAL DefaultProblemData::new: right-hand sides at or above the bound that do
// not sit in a nonnegative cone are capped at the bound (never dropped), whether or not the presolver
// removed other rows; the reduced b is the user's b with the dropped rows deleted.
// The module-level bound is stubbed to the constant 1e20 (a lazy_static atomic is not constant-propagated,
// DESIGN.md 6.2.2) and the nonnegative rows are concrete so that the reduction itself is concrete
// control flow; the second-order-cone rows of b and all of A are symbolic.
// ---------------------------------------------------------------------------------------------
pub fn stub_get_infinity() -> f64 {
    1e20
}

fn cap_through_new(b0: f64, expect_dropped: bool) {
    let b2: f64 = kani::any();
    let b3: f64 = kani::any();
    kani::assume(!b2.is_nan() && !b3.is_nan());
    let b = [b0, 5.0, b2, b3];
    let a = [small_f64(3), small_f64(3), small_f64(3), small_f64(3)];
    let A = CscMatrix::<f64> { m: 4, n: 1, colptr: vec![0, 4], rowval: vec![0, 1, 2, 3], nzval: a.to_vec() };
    let P = CscMatrix::<f64> { m: 1, n: 1, colptr: vec![0, 0], rowval: vec![], nzval: vec![] };
    let cones = [SupportedConeT::NonnegativeConeT(2), SupportedConeT::SecondOrderConeT(2)];
    let mut st = settings_f64();
    st.presolve_enable = true;
    st.equilibrate_enable = false;
    let data = DefaultProblemData::<f64>::new(&P, &[1.0], &A, &b, &cones, &st);
    let cap = |x: f64| if x < 1e20 { x } else { 1e20 };
    if expect_dropped {
        assert!(data.m == 3 && data.b.len() == 3 && data.A.m == 3, "one_nonnegative_row_dropped");
        assert!(data.b[0] == 5.0, "kept_nonnegative_row_keeps_its_value");
        assert!(data.b[1] == cap(b2) && data.b[2] == cap(b3), "rows_of_other_cones_are_capped_at_the_bound_also_when_rows_were_dropped");
        assert!(data.A.nzval[0] == a[1] && data.A.nzval[1] == a[2] && data.A.nzval[2] == a[3], "reduced_A_is_A_with_the_dropped_row_deleted");
    } else {
        assert!(data.m == 4 && data.b.len() == 4, "nothing_dropped");
        assert!(data.b[0] == b0 && data.b[1] == 5.0, "nonnegative_rows_kept");
        assert!(data.b[2] == cap(b2) && data.b[3] == cap(b3), "rows_of_other_cones_are_capped_at_the_bound");
    }
    kani::cover!(b2 > 1e25 && b3 < 0.0, "a second-order-cone row above the bound");
}

#[kani::proof]
#[kani::unwind(8)]
#[kani::stub(clarabel::get_infinity, stub_get_infinity)]
pub fn c09_cap_with_active_presolve() {
    cap_through_new(1e30, true);
}

#[kani::proof]
#[kani::unwind(8)]
#[kani::stub(clarabel::get_infinity, stub_get_infinity)]
pub fn c09_cap_without_reduction() {
    cap_through_new(7.0, false);
}
