//! Kani proof harnesses over the real Clarabel.rs code (path dependency on /repo,
//! built with `--cfg oxfordcontrol_clarabel_rs_verif`).  See /verif/DESIGN.md.
#![allow(non_snake_case, dead_code, unused_imports, clippy::all)]

pub mod fp;
#[cfg(kani)]
pub mod gen;

#[cfg(any(feature = "c01", feature = "c02", feature = "c03", feature = "c04"))]
pub mod verdict;
#[cfg(feature = "c09")]
pub mod c09;
#[cfg(feature = "c12")]
pub mod c12;
#[cfg(feature = "probe")]
pub mod probe;
#[cfg(feature = "selftest")]
pub mod selftest;

// concrete-playback unit tests written by /verif/bin/check when a counterexample is replayed
#[cfg(all(kani, feature = "replay"))]
mod replay_gen;
