//! Kani proof harnesses over the real Clarabel.rs code (path dependency on /repo,
//! built with `--cfg oxfordcontrol_clarabel_rs_verif`).  See /verif/DESIGN.md.
#![allow(non_snake_case, dead_code, unused_imports, clippy::all)]

extern crate alloc;
pub mod fp;
pub mod jet;
#[cfg(kani)]
pub mod gen;

#[cfg(any(feature = "c01", feature = "c02", feature = "c03", feature = "c04", feature = "c07", feature = "c15", feature = "c20"))]
pub mod verdict;
#[cfg(any(feature = "c04", feature = "c07"))]
pub mod c04;
#[cfg(any(feature = "c04", feature = "c05"))]
pub mod c05;
#[cfg(any(feature = "c08", feature = "c01", feature = "c02", feature = "c03"))]
pub mod c08;
#[cfg(feature = "c09")]
pub mod c09;
#[cfg(any(feature = "c10", feature = "c05"))]
pub mod c10;
#[cfg(any(feature = "c11", feature = "c08"))]
pub mod c11;
#[cfg(feature = "c12")]
pub mod c12;
#[cfg(feature = "probe")]
pub mod probe;
#[cfg(any(feature = "c13", feature = "c11"))]
pub mod c13;
#[cfg(feature = "c14")]
pub mod c14;
#[cfg(any(feature = "c15", feature = "c07"))]
pub mod c15;
#[cfg(any(feature = "c16", feature = "c05"))]
pub mod c16;
#[cfg(feature = "c17")]
pub mod c17;
#[cfg(feature = "c18")]
pub mod c18;
#[cfg(feature = "c20")]
pub mod c20;
#[cfg(feature = "selftest")]
pub mod selftest;

// concrete-playback unit tests written by /verif/bin/check when a counterexample is replayed
#[cfg(all(kani, feature = "replay"))]
mod replay_gen;
