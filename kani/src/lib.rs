//! Kani proof harnesses over the real Clarabel.rs code (path dependency on /repo,
//! built with `--cfg oxfordcontrol_clarabel_rs_verif`).  See /verif/DESIGN.md.
#![allow(non_snake_case, dead_code, unused_imports, clippy::all)]

pub mod gen;

#[cfg(feature = "c12")]
pub mod c12;
#[cfg(feature = "selftest")]
pub mod selftest;

// concrete-playback unit tests written by /verif/bin/check when a counterexample is replayed
#[cfg(all(kani, feature = "replay"))]
mod replay_gen;
