//! C15 — cone step lengths are safe and tight (NN, SOC, zero cone, composite, backtracking search),
//! C07 — the homogenisation scalars / step length stay in range; the trajectory does not depend on the budget.
//! f64, bit-precise, every value (NaN / inf included unless an assumption says otherwise).
use crate::gen::*;
use clarabel::algebra::*;
use clarabel::solver::implementations::default::verif_hooks as dh;
use clarabel::solver::traits::{Info, Variables};
use clarabel::solver::*;
use clarabel::verif_hooks as vh;
use clarabel::verif_hooks::cones::verif_hooks_cc as cc;
use clarabel::verif_hooks::cones::*;
use clarabel::verif_hooks::core::StepDirection;

pub fn stub_random_state() -> std::collections::hash_map::RandomState {
    unsafe { std::mem::transmute::<[u64; 2], std::collections::hash_map::RandomState>([1, 2]) }
}

fn any_alpha_max() -> f64 {
    let a: f64 = kani::any();
    kani::assume(a > 0.0 && a <= 1.0);
    a
}

/// SOC: for EVERY f64 input (NaN, inf, points outside the cone ...) the step length is in [0, alpha_max]
/// and the `panic!` of _step_length_soc_component is unreachable
#[kani::proof]
#[kani::unwind(5)]
pub fn c15_soc3_range() {
    let mut c = SecondOrderCone::<f64>::new(3);
    let z: [f64; 3] = kani::any();
    let dz: [f64; 3] = kani::any();
    let s: [f64; 3] = kani::any();
    let ds: [f64; 3] = kani::any();
    let amax = any_alpha_max();
    let st = settings_f64();
    let (az, as_) = c.step_length(&dz, &ds, &z, &s, &st, amax);
    assert!(az >= 0.0 && az <= amax, "soc_dual_step_in_range");
    assert!(as_ >= 0.0 && as_ <= amax, "soc_slack_step_in_range");
    kani::cover!(az < amax && az > 0.0, "interior root selected");
    kani::cover!(az == 0.0, "zero step");
}

/// signed power of two with symbolic exponent (mantissa bits constant: f64 arithmetic on such values
/// is exponent arithmetic and stays cheap for the SAT back end)
fn pow2_signed(lo: i32, hi: i32) -> f64 {
    let k: i32 = kani::any();
    kani::assume(k >= lo && k <= hi);
    let v = f64::from_bits(((1023 + k) as u64) << 52);
    if kani::any() {
        -v
    } else {
        v
    }
}

/// SOC edge case: a zero direction never restricts the step (all finite points)
#[kani::proof]
#[kani::unwind(5)]
pub fn c15_soc3_cases() {
    let mut c = SecondOrderCone::<f64>::new(3);
    let z: [f64; 3] = kani::any();
    kani::assume(z[0].is_finite() && z[1].is_finite() && z[2].is_finite());
    let amax = any_alpha_max();
    let st = settings_f64();
    let zero = [0.0f64; 3];
    let (a0, a1) = c.step_length(&zero, &zero, &z, &z, &st, amax);
    assert!(a0 == amax && a1 == amax, "zero_direction_gives_alpha_max");
    kani::cover!(z[0] == 3.0 && z[1] == -1.0);
}

/// SOC scalar part (dimension-1 tail = 0): never steps past the point where the leading entry vanishes
#[kani::proof]
#[kani::unwind(5)]
pub fn c15_soc3_scalar_part_pow2() {
    let mut c = SecondOrderCone::<f64>::new(3);
    let z0 = pow2_signed(-30, 30);
    let d0 = pow2_signed(-30, 30);
    kani::assume(z0 > 0.0 && d0 < 0.0);
    let z = [z0, 0.0, 0.0];
    let dz = [d0, 0.0, 0.0];
    let amax = any_alpha_max();
    let st = settings_f64();
    let (az, _) = c.step_length(&dz, &dz, &z, &z, &st, amax);
    assert!(az <= -z0 / d0, "step_never_makes_the_scalar_part_negative");
    assert!(az == amax || az == -z0 / d0, "step_is_the_exact_distance_to_the_boundary_or_alpha_max");
    kani::cover!(az < amax, "boundary reached before alpha_max");
    kani::cover!(az == amax && amax < 1.0, "alpha_max binds");
}

/// SOC, scalar part, EVERY finite f64 direction: from a point strictly inside (x0 > |x1|, x2 = 0: decidable without
/// rounding) the step never carries the leading entry below zero, alpha <= fl(-x0/y0) whenever y0 < 0 - whatever
/// the rounding of the discriminant b^2 - 4ac does (a direction through the apex makes it round negative, and the
/// "complex roots -> alpha_max" branch is then bounded by the scalar part alone).  Any alpha that is safe in exact
/// arithmetic satisfies alpha <= x0/|y0|, and rounding to nearest is monotone, so the bound is demanded of every
/// correct implementation.
#[kani::proof]
#[kani::unwind(5)]
pub fn c15_soc3_scalar_bound_interior() {
    let mut c = SecondOrderCone::<f64>::new(3);
    let x0: f64 = kani::any();
    let x1: f64 = kani::any();
    kani::assume(x0.is_finite() && x1.is_finite() && x0 > 0.0 && x1 < x0 && -x1 < x0);
    let z = [x0, x1, 0.0];
    let dz: [f64; 3] = kani::any();
    kani::assume(dz[0].is_finite() && dz[1].is_finite() && dz[2].is_finite());
    let amax = any_alpha_max();
    let st = settings_f64();
    let (az, as_) = c.step_length(&dz, &dz, &z, &z, &st, amax);
    if dz[0] < 0.0 {
        assert!(az <= -x0 / dz[0], "step_never_carries_the_leading_entry_below_zero");
        assert!(as_ <= -x0 / dz[0], "slack_step_never_carries_the_leading_entry_below_zero");
    }
    kani::cover!(dz[0] < 0.0 && az < amax && az == -x0 / dz[0], "scalar part binds");
    kani::cover!(dz[0] < 0.0 && az < -x0 / dz[0], "a root of the quadratic binds first");
}

/// SOC with a NONZERO tail: the quadratic has two distinct real roots and the step must be the smaller positive
/// one - exactly.  x = (x0,0,0) strictly inside, y = (m*|y1|, tail y1 in position 1 or 2) with m in {-3, 0, 3}:
///   m = -3: a = 8 y1^2 > 0, b < 0, roots x0/(4|y1|) < x0/(2|y1|), both positive -> the smaller one
///           (the scalar-part bound x0/(3|y1|) lies between them, so it cannot mask a wrong root)
///   m =  0: a = -y1^2 < 0, b = 0, roots -x0/|y1| and +x0/|y1| -> the positive one
///   m = +3: a > 0, b > 0: both roots negative -> alpha_max
///   m = -1: a = 0 exactly (direction on the boundary of -K), b < 0: the quadratic degenerates to the single root
///           -c/b = x0/(2|y1|); the scalar-part bound x0/|y1| is twice as far (finding F4)
/// every intermediate quantity is a small integer times a power of two, so each f64 operation of the real code
/// is exact and the oracle is an equality.
#[kani::proof]
#[kani::unwind(5)]
pub fn c15_soc3_two_roots_pow2() {
    let mut c = SecondOrderCone::<f64>::new(3);
    let x0 = pow2_signed(-60, 20);
    let y1 = pow2_signed(-60, 20);
    kani::assume(x0 > 0.0);
    let ay1 = if y1 < 0.0 { -y1 } else { y1 };
    let fam: u8 = kani::any();
    kani::assume(fam < 4);
    let y0 = if fam == 0 {
        -3.0 * ay1
    } else if fam == 1 {
        0.0
    } else if fam == 2 {
        3.0 * ay1
    } else {
        -ay1
    };
    let z = [x0, 0.0, 0.0];
    let dz = if kani::any() { [y0, y1, 0.0] } else { [y0, 0.0, y1] };
    let amax = any_alpha_max();
    let st = settings_f64();
    let (az, as_) = c.step_length(&dz, &dz, &z, &z, &st, amax);
    let root = if fam == 0 {
        x0 / (4.0 * ay1)
    } else if fam == 1 {
        x0 / ay1
    } else if fam == 2 {
        f64::INFINITY
    } else {
        x0 / (2.0 * ay1)
    };
    let want = if root < amax { root } else { amax };
    assert!(az == want, "step_is_the_smallest_positive_root_of_the_boundary_quadratic_or_alpha_max");
    assert!(as_ == want, "slack_step_is_the_smallest_positive_root_or_alpha_max");
    kani::cover!(fam == 0 && az < amax, "two positive roots, smaller one binds");
    kani::cover!(fam == 1 && az < amax, "roots of opposite sign, positive one binds");
    kani::cover!(fam == 2, "both roots negative");
    kani::cover!(fam == 3 && az < amax, "degenerate quadratic: single root binds");
    kani::cover!(fam == 0 && az == amax && amax < 1.0, "alpha_max binds");
}

/// NN cone, every f64: never above alpha_max; nonnegative from an interior point; no panic
fn nn_range<const D: usize>() {
    let mut c = NonnegativeCone::<f64>::new(D);
    let z: [f64; D] = kani::any();
    let dz: [f64; D] = kani::any();
    let s: [f64; D] = kani::any();
    let ds: [f64; D] = kani::any();
    let amax: f64 = kani::any();
    let st = settings_f64();
    let (az, as_) = c.step_length(&dz, &ds, &z, &s, &st, amax);
    if !amax.is_nan() {
        assert!(az <= amax && as_ <= amax, "never_exceeds_alpha_max");
    }
    let mut interior = amax >= 0.0;
    let mut i = 0;
    while i < D {
        if !(z[i] > 0.0 && z[i].is_finite() && dz[i].is_finite()) {
            interior = false;
        }
        i += 1;
    }
    if interior {
        assert!(az >= 0.0, "interior_point_gives_nonnegative_step");
    }
    kani::cover!(az < amax && az > 0.0, "ratio test active");
    kani::cover!(az == amax && amax == 1.0, "full step");
}

/// NN cone: the ratio test is EXACT: alpha = min(alpha_max, min_{d_i<0} -z_i/d_i).
/// Inputs are signed powers of two with symbolic exponents (divisions are exact and cheap).
fn nn_exact_pow2<const D: usize>() {
    let mut c = NonnegativeCone::<f64>::new(D);
    let mut z = [0f64; D];
    let mut dz = [0f64; D];
    let mut i = 0;
    while i < D {
        z[i] = pow2_signed(-40, 40);
        dz[i] = pow2_signed(-40, 40);
        i += 1;
    }
    let amax = any_alpha_max();
    let st = settings_f64();
    let (az, as_) = c.step_length(&dz, &dz, &z, &z, &st, amax);
    let mut r = amax;
    let mut i = 0;
    while i < D {
        if dz[i] < 0.0 {
            let t = -z[i] / dz[i];
            if t < r {
                r = t;
            }
        }
        i += 1;
    }
    assert!(az == r && as_ == r, "nn_step_is_the_exact_ratio_test");
    // taking the step keeps every coordinate of an interior point nonnegative (exact arithmetic here)
    let mut i = 0;
    while i < D {
        if z[i] > 0.0 && az >= 0.0 && az == -z[i] / dz[i] {
            assert!(z[i] + az * dz[i] == 0.0, "blocking_coordinate_lands_exactly_on_the_boundary");
        }
        i += 1;
    }
    kani::cover!(az < amax && az > 0.0, "ratio test active");
}

#[kani::proof]
#[kani::unwind(5)]
pub fn c15_nn2_range() {
    nn_range::<2>();
}
#[kani::proof]
#[kani::unwind(6)]
pub fn c15_nn3_range() {
    nn_range::<3>();
}
#[kani::proof]
#[kani::unwind(5)]
pub fn c15_nn2_exact_pow2() {
    nn_exact_pow2::<2>();
}
#[kani::proof]
#[kani::unwind(6)]
pub fn c15_nn3_exact_pow2() {
    nn_exact_pow2::<3>();
}

/// long searches: the search has NO trial budget of its own - it goes on until alpha drops below alpha_min.
/// alpha_init = 1, step = 1/2, alpha_min = 2^-70; the oracle accepts exactly the point of the j-th candidate
/// (j symbolic, possibly none): the result is 2^-j if that candidate can be told apart, and 0 otherwise - never
/// an untested value, and in particular not after 50 trials.
#[kani::proof]
#[kani::unwind(76)]
pub fn c15_backtrack_long() {
    let j: usize = kani::any();
    kani::assume(j <= 51); // 1 + 2^-(j+1) is exactly representable and distinct from its neighbours up to here
    let never: bool = kani::any(); // an oracle that rejects everything
    let q = [1.0f64, 2.0];
    let dq = [0.5f64, -1.0];
    // the oracle is a function of the POINT it is shown (not of how often it has been asked): it accepts exactly
    // q + 2^-j dq (or nothing at all)
    let accepted_point = 1.0 + f64::from_bits((1023u64 - (j as u64 + 1)) << 52);
    let asked = std::cell::Cell::new(0usize);
    let oracle = |w: &[f64]| {
        asked.set(asked.get() + 1);
        !never && w[0] == accepted_point
    };
    let mut work = [0.0f64; 2];
    let amin = f64::from_bits((1023u64 - 70) << 52); // 2^-70
    let a = vh::backtrack_search(&dq, &q, 1.0, amin, 0.5, oracle, &mut work);
    if !never {
        let want = f64::from_bits((1023u64 - j as u64) << 52); // 2^-j
        assert!(a == want, "the_accepted_candidate_is_returned_however_many_reductions_it_takes");
        assert!(work[0] == accepted_point, "work_holds_the_accepted_point");
    } else {
        assert!(a == 0.0, "zero_when_every_candidate_not_below_alpha_min_was_rejected");
    }
    assert!(asked.get() >= 1, "the_oracle_is_consulted");
    kani::cover!(j == 51 && a > 0.0, "accepted after fifty-one reductions");
    kani::cover!(never && a == 0.0, "gave up at alpha_min");
}

/// zero cone: no restriction on the step
#[kani::proof]
#[kani::unwind(5)]
pub fn c15_zero_cone() {
    let mut c = ZeroCone::<f64>::new(2);
    let z: [f64; 2] = kani::any();
    let dz: [f64; 2] = kani::any();
    let amax: f64 = kani::any();
    let st = settings_f64();
    let (az, as_) = c.step_length(&dz, &dz, &z, &z, &st, amax);
    assert!(same_bits(az, amax) && same_bits(as_, amax), "zero_cone_returns_alpha_max");
    kani::cover!(amax == 0.5);
}

/// backtracking search with an ARBITRARY membership oracle: terminates, returns 0 or alpha_init*step^k,
/// the returned alpha was accepted and every larger candidate was rejected (=> within one factor)
#[kani::proof]
#[kani::unwind(8)]
pub fn c15_backtrack() {
    // oracle answers are pre-drawn (arbitrary) and consumed in order through a Cell
    let answers: [bool; 6] = kani::any();
    let idx = std::cell::Cell::new(0usize);
    let accepted_at = std::cell::Cell::new(usize::MAX);
    let oracle = |_w: &[f64]| {
        let i = idx.get();
        idx.set(i + 1);
        let a = if i < 6 { answers[i] } else { true };
        if a && accepted_at.get() == usize::MAX {
            accepted_at.set(i);
        }
        a
    };
    let q = [1.0f64, 2.0];
    let dq = [0.5f64, -1.0];
    let mut work = [0.0f64; 2];
    let a0: f64 = kani::any();
    kani::assume(a0 >= 1e-300 && a0 <= 1.0); // normal range: alpha_init/20 does not underflow
    // alpha_min such that at most 5 reductions happen: step = 0.5, alpha_min = alpha_init/20
    let step = 0.5f64;
    let amin = a0 / 20.0;
    let a = vh::backtrack_search(&dq, &q, a0, amin, step, oracle, &mut work);
    let calls = idx.get();
    assert!(calls >= 1 && calls <= 6, "search_terminates_within_the_alpha_min_budget");
    if a != 0.0 {
        // accepted candidate is alpha_init * step^(calls-1); all earlier (larger) ones were rejected
        assert!(accepted_at.get() == calls - 1, "returned_alpha_was_accepted_and_is_the_first_accepted");
        let mut want = a0;
        let mut k = 1;
        while k < calls {
            want *= step;
            k += 1;
        }
        assert!(a == want, "returned_alpha_is_alpha_init_times_step_to_the_k");
        assert!(a >= amin, "returned_alpha_not_below_alpha_min");
        // work holds q + alpha dq for the returned alpha
        assert!(work[0] == q[0] + a * dq[0] && work[1] == q[1] + a * dq[1], "work_is_the_accepted_point");
    } else {
        assert!(accepted_at.get() == usize::MAX || accepted_at.get() >= calls, "zero_only_if_every_candidate_above_alpha_min_was_rejected");
    }
    kani::cover!(a == a0, "first candidate accepted");
    kani::cover!(a != 0.0 && calls == 3, "accepted after two reductions");
    kani::cover!(a == 0.0, "gave up");
}

/// composite cone [NN1, Zero1, NN2]: the common step is exactly the minimum over the parts, <= alpha_max.
/// (signed powers of two: the reference ratios are exact and cheap; all-f64 ranges of the parts are
/// decided by c15_nn2_range / c15_soc3_range)
#[kani::proof]
#[kani::unwind(7)]
#[kani::stub(std::collections::hash_map::RandomState::new, stub_random_state)]
pub fn c15_composite_nn_zero_nn() {
    crate::stack_composite!(c, f64, [SupportedConeT::<f64>::NonnegativeConeT(1), SupportedConeT::<f64>::ZeroConeT(1), SupportedConeT::<f64>::NonnegativeConeT(2)]);
    let mut z = [0f64; 4];
    let mut dz = [0f64; 4];
    let mut s = [0f64; 4];
    let mut ds = [0f64; 4];
    let mut i = 0;
    while i < 4 {
        z[i] = pow2_signed(-20, 20);
        dz[i] = pow2_signed(-20, 20);
        s[i] = pow2_signed(-20, 20);
        ds[i] = pow2_signed(-20, 20);
        i += 1;
    }
    let amax = any_alpha_max();
    let st = settings_f64();
    let (az, as_) = c.step_length(&dz, &ds, &z, &s, &st, amax);
    assert!(same_bits(az, as_), "composite_returns_a_common_step");
    // reference: min over the nonnegative rows 0, 2, 3 of both vectors (row 1 is the zero cone: unrestricted)
    let mut r = amax;
    for i in [0usize, 2, 3] {
        if dz[i] < 0.0 && -z[i] / dz[i] < r {
            r = -z[i] / dz[i];
        }
        if ds[i] < 0.0 && -s[i] / ds[i] < r {
            r = -s[i] / ds[i];
        }
    }
    assert!(az == r, "composite_step_is_the_minimum_over_its_cones");
    kani::cover!(az < amax && az == -s[3] / ds[3], "last cone's slack restricts the step");
    kani::cover!(az == amax, "nothing restricts the step");
}

/// C15.shift (NN): after the shift used at initialisation every entry is strictly positive
#[kani::proof]
#[kani::unwind(6)]
#[kani::stub(std::collections::hash_map::RandomState::new, stub_random_state)]
pub fn c15_shift_nn() {
    crate::stack_composite!(c, f64, [SupportedConeT::<f64>::NonnegativeConeT(2), SupportedConeT::<f64>::ZeroConeT(1)]);
    let mut v = DefaultVariables::<f64>::new(1, 3);
    let z: [f64; 3] = kani::any();
    let s: [f64; 3] = kani::any();
    let mut i = 0;
    while i < 3 {
        kani::assume(z[i].abs() <= 1e100 && s[i].abs() <= 1e100);
        i += 1;
    }
    v.z.copy_from_slice(&z);
    v.s.copy_from_slice(&s);
    v.symmetric_initialization(&mut c);
    assert!(v.s[0] > 0.0 && v.s[1] > 0.0, "slack_strictly_inside_the_nonnegative_cone");
    assert!(v.z[0] > 0.0 && v.z[1] > 0.0, "dual_strictly_inside_the_nonnegative_cone");
    assert!(v.s[2] == 0.0, "zero_cone_slack_forced_to_zero");
    assert!(v.τ == 1.0 && v.κ == 1.0, "tau_kappa_initialised_to_one");
    kani::cover!(z[0] < 0.0 && s[1] > 5.0, "point outside / well inside");
}

// ---------------------------------------------------------------------------------------------
// C07
// ---------------------------------------------------------------------------------------------

/// the step length computed from tau, kappa (no cones) is in [0,1] for positive tau, kappa, and is the
/// exact distance to tau = 0 / kappa = 0 (times max_step_fraction for a combined step).
/// tau, kappa and their directions are signed powers of two (exact, cheap); max_step_fraction any f64 in (0,1].
#[kani::proof]
#[kani::unwind(4)]
#[kani::stub(std::collections::hash_map::RandomState::new, stub_random_state)]
pub fn c07_alpha_range() {
    // one nonnegative row with s = z = 1 and a zero direction: it never restricts the step (decided in
    // c15_nn*), so the result is the tau/kappa part.  (An EMPTY cone list makes the slice iterator compare
    // pointers into a zero-sized object and CBMC then explores every cone's step_length: 20 min of symex.)
    crate::stack_composite!(c, f64, [SupportedConeT::NonnegativeConeT(1)]);
    let mut v = DefaultVariables::<f64>::new(1, 1);
    let mut step = DefaultVariables::<f64>::new(1, 1);
    v.s[0] = 1.0;
    v.z[0] = 1.0;
    v.τ = pow2_signed(-40, 40);
    v.κ = pow2_signed(-40, 40);
    step.τ = pow2_signed(-40, 40);
    step.κ = pow2_signed(-40, 40);
    kani::assume(v.τ > 0.0 && v.κ > 0.0);
    let mut st = settings_f64();
    let msf: f64 = kani::any();
    kani::assume(msf > 0.0 && msf <= 1.0);
    st.max_step_fraction = msf;
    let combined: bool = kani::any();
    let dir = if combined { StepDirection::Combined } else { StepDirection::Affine };
    let a = v.calc_step_length(&step, &mut c, &st, dir);
    assert!(a >= 0.0 && a <= 1.0, "step_length_in_unit_interval");
    let mut r = 1.0f64;
    if step.τ < 0.0 && -v.τ / step.τ < r {
        r = -v.τ / step.τ;
    }
    if step.κ < 0.0 && -v.κ / step.κ < r {
        r = -v.κ / step.κ;
    }
    if !combined {
        assert!(a == r, "affine_step_is_the_exact_distance_to_tau_or_kappa_zero_capped_at_one");
        // taking it keeps tau and kappa nonnegative
        assert!(v.τ + a * step.τ >= 0.0 && v.κ + a * step.κ >= 0.0, "tau_kappa_stay_nonnegative");
    } else {
        // (that tau + a*dtau stays strictly positive for a step fraction below one is a statement about two
        // roundings of an arbitrary-significand product: the query did not finish in 30 min - outside the claim)
        assert!(a <= r, "combined_step_not_longer_than_the_distance_to_the_boundary");
    }
    kani::cover!(a < 1.0 && a > 0.0 && !combined, "tau or kappa restricts the step");
    kani::cover!(combined && msf < 1.0 && step.τ < 0.0, "combined step towards tau = 0");
}

