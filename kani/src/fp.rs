//! `Fp<P>` — the prime field GF(P) as a scalar type satisfying Clarabel's `FloatT` bound.
//!
//! Clarabel's numeric kernels are generic over `T: FloatT` (a blanket trait over
//! `num_traits::Float + FloatConst + NumAssign + FromPrimitive + Display + LowerExp + ...`), so
//! the *real generic code* can be instantiated at an exact field.  Algebraic identities of the
//! code (rational functions of the inputs) hold over the reals iff they hold over GF(P) for all
//! arguments, as long as P exceeds the degrees involved (DESIGN.md §2).  This says nothing about
//! rounding.  Order comparisons compare representatives 0..P-1 and are only meaningful for
//! equality-like tests (`== 0`).
//!
//! `recip` and `sqrt` are *nondeterministic* under Kani (an arbitrary r with r*x == 1, resp.
//! r*r == x); paths on which the argument of `sqrt` is not a square are cut (assume) — every
//! harness using sqrt has a cover witness behind the call.
use num_traits::{Float, FloatConst, FromPrimitive, Num, NumCast, One, ToPrimitive, Zero};
use std::fmt;
use std::ops::*;

#[derive(Clone, Copy, PartialEq, Eq, Default, Debug)]
pub struct Fp<const P: u16>(pub u16);

pub type F13 = Fp<13>;
pub type F31 = Fp<31>;
pub type F251 = Fp<251>;

impl<const P: u16> Fp<P> {
    pub const fn new(v: u16) -> Self {
        Fp(v % P)
    }
    pub fn from_i64_mod(v: i64) -> Self {
        let p = P as i64;
        Fp((((v % p) + p) % p) as u16)
    }
    /// arbitrary field element
    #[cfg(kani)]
    pub fn any() -> Self {
        let v: u16 = kani::any();
        kani::assume(v < P);
        Fp(v)
    }
    /// arbitrary nonzero field element
    #[cfg(kani)]
    pub fn any_nonzero() -> Self {
        let v: u16 = kani::any();
        kani::assume(v < P && v != 0);
        Fp(v)
    }
    /// self^e for e < 2^16, as straight-line code (no loop: harness unwind bounds stay independent of it)
    pub fn pow(self, e: u32) -> Self {
        let mut acc = Fp::<P>(1 % P);
        let mut base = self;
        macro_rules! step {
            ($bit:expr) => {
                if (e >> $bit) & 1 == 1 {
                    acc = acc * base;
                }
                base = base * base;
            };
        }
        step!(0);
        step!(1);
        step!(2);
        step!(3);
        step!(4);
        step!(5);
        step!(6);
        step!(7);
        step!(8);
        step!(9);
        step!(10);
        step!(11);
        step!(12);
        step!(13);
        step!(14);
        step!(15);
        let _ = base;
        acc
    }
    /// deterministic inverse (Fermat); 0 -> 0
    pub fn inv_det(self) -> Self {
        self.pow(P as u32 - 2)
    }
    pub fn is_square(self) -> bool {
        self.0 == 0 || self.pow((P as u32 - 1) / 2).0 == 1
    }
}

impl<const P: u16> PartialOrd for Fp<P> {
    fn partial_cmp(&self, o: &Self) -> Option<std::cmp::Ordering> {
        self.0.partial_cmp(&o.0)
    }
}

impl<const P: u16> Add for Fp<P> {
    type Output = Self;
    #[inline]
    fn add(self, o: Self) -> Self {
        Fp(((self.0 as u32 + o.0 as u32) % P as u32) as u16)
    }
}
impl<const P: u16> Sub for Fp<P> {
    type Output = Self;
    #[inline]
    fn sub(self, o: Self) -> Self {
        Fp(((self.0 as u32 + P as u32 - o.0 as u32) % P as u32) as u16)
    }
}
impl<const P: u16> Mul for Fp<P> {
    type Output = Self;
    #[inline]
    fn mul(self, o: Self) -> Self {
        Fp(((self.0 as u32 * o.0 as u32) % P as u32) as u16)
    }
}
impl<const P: u16> Neg for Fp<P> {
    type Output = Self;
    #[inline]
    fn neg(self) -> Self {
        Fp(((P as u32 - self.0 as u32) % P as u32) as u16)
    }
}
impl<const P: u16> Div for Fp<P> {
    type Output = Self;
    #[inline]
    fn div(self, o: Self) -> Self {
        self * Float::recip(o)
    }
}
impl<const P: u16> Rem for Fp<P> {
    type Output = Self;
    fn rem(self, _o: Self) -> Self {
        unimplemented!("Fp: rem")
    }
}
macro_rules! assign_ops {
    ($($tr:ident $f:ident $op:tt;)*) => {$(
        impl<const P: u16> $tr for Fp<P> {
            #[inline]
            fn $f(&mut self, o: Self) { *self = *self $op o; }
        }
    )*};
}
assign_ops! { AddAssign add_assign +; SubAssign sub_assign -; MulAssign mul_assign *; DivAssign div_assign /; RemAssign rem_assign %; }

impl<const P: u16> Zero for Fp<P> {
    fn zero() -> Self {
        Fp(0)
    }
    fn is_zero(&self) -> bool {
        self.0 == 0
    }
}
impl<const P: u16> One for Fp<P> {
    fn one() -> Self {
        Fp(1 % P)
    }
}
impl<const P: u16> Num for Fp<P> {
    type FromStrRadixErr = ();
    fn from_str_radix(_s: &str, _r: u32) -> Result<Self, ()> {
        Err(())
    }
}
impl<const P: u16> ToPrimitive for Fp<P> {
    fn to_i64(&self) -> Option<i64> {
        Some(self.0 as i64)
    }
    fn to_u64(&self) -> Option<u64> {
        Some(self.0 as u64)
    }
    fn to_f64(&self) -> Option<f64> {
        Some(self.0 as f64)
    }
}
impl<const P: u16> NumCast for Fp<P> {
    fn from<T: ToPrimitive>(n: T) -> Option<Self> {
        // integers map to their residue; other floats through from_f64
        if let Some(f) = n.to_f64() {
            <Self as FromPrimitive>::from_f64(f)
        } else {
            n.to_i64().map(Self::from_i64_mod)
        }
    }
}
impl<const P: u16> FromPrimitive for Fp<P> {
    fn from_i64(n: i64) -> Option<Self> {
        Some(Self::from_i64_mod(n))
    }
    fn from_u64(n: u64) -> Option<Self> {
        Some(Fp((n % P as u64) as u16))
    }
    /// integer-valued floats map to their residue, k/den for den in {2,4,5,8,10,16,20,100,1000} to
    /// k * den^-1 (straight-line, no loop).  Only ever called on literal constants of the code.
    /// Other constants (1e-8 ... thresholds, not algebra) map to zero.
    fn from_f64(x: f64) -> Option<Self> {
        if !x.is_finite() {
            return None;
        }
        macro_rules! try_den {
            ($den:expr) => {
                let y = x * ($den as f64);
                if y == y.trunc() && y.abs() < 1e15 && ($den as u32) % (P as u32) != 0 {
                    let num = Self::from_i64_mod(y as i64);
                    let d = Self::from_i64_mod($den as i64);
                    return Some(num * d.inv_det());
                }
            };
        }
        try_den!(1);
        try_den!(2);
        try_den!(4);
        try_den!(5);
        try_den!(8);
        try_den!(10);
        try_den!(16);
        try_den!(20);
        try_den!(100);
        try_den!(1000);
        Some(Fp(0))
    }
}
impl<const P: u16> fmt::Display for Fp<P> {
    fn fmt(&self, f: &mut fmt::Formatter<'_>) -> fmt::Result {
        write!(f, "{}", self.0)
    }
}
impl<const P: u16> fmt::LowerExp for Fp<P> {
    fn fmt(&self, f: &mut fmt::Formatter<'_>) -> fmt::Result {
        write!(f, "{}", self.0)
    }
}

macro_rules! unimpl0 {
    ($($f:ident)*) => {$( fn $f() -> Self { unimplemented!(concat!("Fp::", stringify!($f))) } )*};
}
macro_rules! unimpl1 {
    ($($f:ident)*) => {$( fn $f(self) -> Self { unimplemented!(concat!("Fp::", stringify!($f))) } )*};
}
macro_rules! unimpl2 {
    ($($f:ident)*) => {$( fn $f(self, _o: Self) -> Self { unimplemented!(concat!("Fp::", stringify!($f))) } )*};
}

/// see `Fp::sqrt`
pub static mut CANONICAL_SQRT: bool = false;

impl<const P: u16> Float for Fp<P> {
    unimpl0! { nan infinity neg_infinity }
    fn neg_zero() -> Self {
        Fp(0)
    }
    fn min_value() -> Self {
        Fp(0)
    }
    fn min_positive_value() -> Self {
        Fp(1)
    }
    fn max_value() -> Self {
        Fp(P - 1)
    }
    fn epsilon() -> Self {
        Fp(0)
    }
    fn is_nan(self) -> bool {
        false
    }
    fn is_infinite(self) -> bool {
        false
    }
    fn is_finite(self) -> bool {
        true
    }
    fn is_normal(self) -> bool {
        self.0 != 0
    }
    fn classify(self) -> std::num::FpCategory {
        std::num::FpCategory::Normal
    }
    unimpl1! { floor ceil round trunc fract signum exp exp2 ln log2 log10 cbrt sin cos tan asin acos atan exp_m1 ln_1p sinh cosh tanh asinh acosh atanh }
    unimpl2! { powf log abs_sub hypot atan2 }
    fn abs(self) -> Self {
        self
    }
    fn is_sign_positive(self) -> bool {
        true
    }
    fn is_sign_negative(self) -> bool {
        false
    }
    fn mul_add(self, a: Self, b: Self) -> Self {
        self * a + b
    }
    #[cfg(kani)]
    fn recip(self) -> Self {
        // nondeterministic inverse: cheaper for the SAT solver than Fermat exponentiation
        if self.0 == 0 {
            return Fp(0);
        }
        let r: u16 = kani::any();
        kani::assume(r < P);
        kani::assume((r as u32 * self.0 as u32) % P as u32 == 1);
        Fp(r)
    }
    #[cfg(not(kani))]
    fn recip(self) -> Self {
        self.inv_det()
    }
    fn powi(self, n: i32) -> Self {
        if n >= 0 {
            self.pow(n as u32)
        } else {
            Float::recip(self).pow((-n) as u32)
        }
    }
    #[cfg(kani)]
    fn sqrt(self) -> Self {
        let r: u16 = kani::any();
        kani::assume(r < P);
        kani::assume((r as u32 * r as u32) % P as u32 == self.0 as u32);
        // a harness that compares two computations of the same quantity needs sqrt to be a FUNCTION:
        // it then asks for the canonical root (the one with the smaller representative)
        if unsafe { CANONICAL_SQRT } {
            kani::assume(r <= P / 2);
        }
        Fp(r)
    }
    #[cfg(not(kani))]
    fn sqrt(self) -> Self {
        let mut r = 0u16;
        while r < P {
            if (r as u32 * r as u32) % P as u32 == self.0 as u32 {
                return Fp(r);
            }
            r += 1;
        }
        panic!("Fp::sqrt of a non-residue")
    }
    fn max(self, o: Self) -> Self {
        if self.0 >= o.0 {
            self
        } else {
            o
        }
    }
    fn min(self, o: Self) -> Self {
        if self.0 <= o.0 {
            self
        } else {
            o
        }
    }
    fn sin_cos(self) -> (Self, Self) {
        unimplemented!("Fp::sin_cos")
    }
    fn integer_decode(self) -> (u64, i16, i8) {
        (self.0 as u64, 0, 1)
    }
}

impl<const P: u16> FloatConst for Fp<P> {
    unimpl0! { E FRAC_1_PI FRAC_2_PI FRAC_2_SQRT_PI FRAC_PI_2 FRAC_PI_3 FRAC_PI_4 FRAC_PI_6 FRAC_PI_8 LN_10 LN_2 LOG10_E LOG2_E PI }
    /// THE canonical root of 2 (the one with representative <= P/2; exists iff P = +-1 mod 8, e.g. 17, 31;
    /// cut otherwise).  A constant must have the same value at every use, unlike the arbitrary root of `sqrt`.
    fn SQRT_2() -> Self {
        canonical_sqrt2::<P>()
    }
    fn FRAC_1_SQRT_2() -> Self {
        Float::recip(canonical_sqrt2::<P>())
    }
}

#[cfg(kani)]
fn canonical_sqrt2<const P: u16>() -> Fp<P> {
    let r: u16 = kani::any();
    kani::assume(r <= P / 2 && (r as u32 * r as u32) % P as u32 == 2 % P as u32);
    Fp(r)
}
#[cfg(not(kani))]
fn canonical_sqrt2<const P: u16>() -> Fp<P> {
    let mut r = 0u16;
    while r <= P / 2 {
        if (r as u32 * r as u32) % P as u32 == 2 % P as u32 {
            return Fp(r);
        }
        r += 1;
    }
    panic!("2 is not a square in this field")
}

#[cfg(kani)]
impl<const P: u16> kani::Arbitrary for Fp<P> {
    fn any() -> Self {
        Fp::<P>::any()
    }
}

#[cfg(all(test, not(feature = "sdp")))]
mod tests {
    use super::*;
    use clarabel::algebra::FloatT;
    fn needs_floatt<T: FloatT>() {}
    #[test]
    fn fp_is_floatt() {
        needs_floatt::<F13>();
        assert_eq!((F13::new(5) * F13::new(5).inv_det()).0, 1);
        assert_eq!(<F13 as FromPrimitive>::from_f64(0.5).unwrap(), F13::new(2).inv_det());
        assert_eq!(<F13 as FromPrimitive>::from_f64(-1.0).unwrap().0, 12);
    }
}
