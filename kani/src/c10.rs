//! C10 — equilibration is an exact, cone-preserving diagonal change of variables.
//!
//! The bookkeeping identity "the factors applied to the data are the factors recorded"
//! (P = c D P0 D, A = E A0 D, q = c D q0, b = E b0, dinv = 1/d, einv = 1/e, E constant on
//! non-scalar cones) is decided on the REAL generic `equilibrate` over GF(13), for all data values
//! and two Ruiz sweeps.  "Disabled => untouched" and "zero rows/columns stay unscaled" are decided
//! at f64.  The numerical bounding of the cumulative factors (clip) needs reasoning about rounded
//! products/quotients and is outside the claim.
use crate::fp::*;
use crate::gen::*;
use clarabel::algebra::*;
use clarabel::solver::traits::ProblemData;
use clarabel::solver::*;
use clarabel::verif_hooks::cones::verif_hooks_cc as cc;
use clarabel::verif_hooks::cones::*;
use num_traits::{One, Zero};

type F = F13;

pub fn stub_random_state() -> std::collections::hash_map::RandomState {
    unsafe { std::mem::transmute::<[u64; 2], std::collections::hash_map::RandomState>([1, 2]) }
}

fn fill_any(v: &mut [F]) {
    let mut i = 0;
    while i < v.len() {
        v[i] = F::any();
        i += 1;
    }
}

/// problem data over GF(13): n = 2, P full upper triangle, A dense M x 2 (concrete patterns)
fn data_fp<const M: usize>(cones: &[SupportedConeT<F>], st: &DefaultSettings<F>) -> DefaultProblemData<F> {
    let mut P = CscMatrix::<F> { m: 2, n: 2, colptr: vec![0, 1, 3], rowval: vec![0, 0, 1], nzval: vec![F::zero(); 3] };
    fill_any(&mut P.nzval);
    let mut rowval = Vec::new();
    let mut j = 0;
    while j < 2 {
        let mut i = 0;
        while i < M {
            rowval.push(i);
            i += 1;
        }
        j += 1;
    }
    let mut A = CscMatrix::<F> { m: M, n: 2, colptr: vec![0, M, 2 * M], rowval, nzval: vec![F::zero(); 2 * M] };
    fill_any(&mut A.nzval);
    let mut q = [F::zero(); 2];
    fill_any(&mut q);
    let mut b = vec![F::zero(); M];
    fill_any(&mut b);
    let mut data = DefaultProblemData::<F>::new(&P, &q, &A, &b, cones, st);
    // the constructor caps b at the infinity bound with T::min(b, 1e20): an order comparison that means nothing
    // in a field (and 1e20 maps to the field's 0, so every b would become 0 and the assertions about b vacuous -
    // which is how the seeded change C05c first slipped through); b is written back after construction
    data.b.copy_from_slice(&b);
    data
}

fn exact_fp<const M: usize>(cones_t: &[SupportedConeT<F>], cones: &CompositeCone<F>, sweeps: u32, nonscalar: std::ops::Range<usize>) {
    let mut st = settings_t::<F>();
    st.presolve_enable = false;
    st.equilibrate_max_iter = sweeps;
    // any bounds: the identity must hold whatever the clipping does
    st.equilibrate_min_scaling = F::any_nonzero(); // (positive over the reals; zero would zero out a factor)
    st.equilibrate_max_scaling = F::any_nonzero();
    let mut data = data_fp::<M>(cones_t, &st);
    let (P0, A0, q0, b0) = (data.P.clone(), data.A.clone(), data.q.clone(), data.b.clone());
    data.equilibrate(cones, &st);
    let eq = &data.equilibration;
    let (d, e, c) = (&eq.d, &eq.e, eq.c);
    // the factors applied are the factors recorded
    let mut k = 0;
    while k < 3 {
        let (r, cc_) = (P0.rowval[k], col_of(&P0.colptr, k));
        assert!(data.P.nzval[k] == c * d[r] * P0.nzval[k] * d[cc_], "P_equals_c_D_P0_D");
        k += 1;
    }
    let mut k = 0;
    while k < 2 * M {
        let (r, cc_) = (A0.rowval[k], col_of(&A0.colptr, k));
        assert!(data.A.nzval[k] == e[r] * A0.nzval[k] * d[cc_], "A_equals_E_A0_D");
        k += 1;
    }
    let mut j = 0;
    while j < 2 {
        assert!(data.q[j] == c * d[j] * q0[j], "q_equals_c_D_q0");
        // dinv is the inverse of d (or d = 0, which the field allows and the reals do not)
        assert!(eq.dinv[j] * d[j] == F::one() || d[j].0 == 0, "dinv_is_inverse_of_d");
        j += 1;
    }
    let mut i = 0;
    while i < M {
        assert!(data.b[i] == e[i] * b0[i], "b_equals_E_b0");
        assert!(eq.einv[i] * e[i] == F::one() || e[i].0 == 0, "einv_is_inverse_of_e");
        i += 1;
    }
    // E is constant over every cone that is not a product of scalar cones
    let mut i = nonscalar.start;
    while i + 1 < nonscalar.end {
        assert!(e[i] == e[i + 1], "E_constant_over_nonscalar_cone");
        i += 1;
    }
    assert!(same_pattern(&data.P, &P0) && same_pattern(&data.A, &A0), "patterns_unchanged");
    kani::cover!(d[0].0 > 1 && e[M - 1].0 > 1 && c.0 > 1, "nontrivial factors");
    kani::cover!(b0[M - 1].0 > 1 && e[M - 1].0 > 1, "nonzero right-hand side with a nontrivial row factor");
}

macro_rules! exact_harness {
    ($name:ident, $m:expr, [$($c:expr),*], $sweeps:expr, $rng:expr, $unwind:expr) => {
        #[kani::proof]
        #[kani::unwind($unwind)]
        #[kani::stub(std::collections::hash_map::RandomState::new, stub_random_state)]
        pub fn $name() {
            use SupportedConeT::*;
            crate::stack_composite!(cones, F, [$($c),*]);
            exact_fp::<$m>(&[$($c),*], &cones, $sweeps, $rng);
        }
    };
}
exact_harness!(c10_exact_nn2_1sweep, 2, [NonnegativeConeT(2)], 1, 0..0, 6);
exact_harness!(c10_exact_nn2_2sweeps, 2, [NonnegativeConeT(2)], 2, 0..0, 6);
exact_harness!(c10_exact_nn1_soc2_1sweep, 3, [NonnegativeConeT(1), SecondOrderConeT(2)], 1, 1..3, 8);
exact_harness!(c10_exact_zero1_soc3_2sweeps, 4, [ZeroConeT(1), SecondOrderConeT(3)], 2, 1..4, 10);

/// with equilibration disabled nothing is touched (f64, every bit pattern)
#[kani::proof]
#[kani::unwind(6)]
#[kani::stub(std::collections::hash_map::RandomState::new, stub_random_state)]
pub fn c10_disabled() {
    let pv: [f64; 3] = kani::any();
    let av: [f64; 3] = kani::any();
    let q: [f64; 2] = kani::any();
    let b: [f64; 2] = kani::any();
    kani::assume(!b[0].is_nan() && !b[1].is_nan()); // b is capped at the infinity bound with min(): NaN is not data
    let P = CscMatrix::<f64> { m: 2, n: 2, colptr: vec![0, 1, 3], rowval: vec![0, 0, 1], nzval: pv.to_vec() };
    let A = CscMatrix::<f64> { m: 2, n: 2, colptr: vec![0, 2, 3], rowval: vec![0, 1, 1], nzval: av.to_vec() };
    let cones_t = [SupportedConeT::NonnegativeConeT(2)];
    let mut st = settings_f64();
    st.presolve_enable = false;
    st.equilibrate_enable = false;
    let mut data = DefaultProblemData::<f64>::new(&P, &q, &A, &b, &cones_t, &st);
    crate::stack_composite!(cones, f64, [SupportedConeT::<f64>::NonnegativeConeT(2)]);
    data.equilibrate(&cones, &st);
    let mut k = 0;
    while k < 3 {
        assert!(same_bits(data.P.nzval[k], pv[k]) && same_bits(data.A.nzval[k], av[k]), "matrices_untouched");
        k += 1;
    }
    let mut i = 0;
    while i < 2 {
        assert!(same_bits(data.q[i], q[i]), "q_untouched");
        assert!(data.b[i] == if b[i] < 1e20 { b[i] } else { 1e20 }, "b_untouched_up_to_the_infinity_cap");
        assert!(data.equilibration.d[i] == 1.0 && data.equilibration.e[i] == 1.0 && data.equilibration.dinv[i] == 1.0 && data.equilibration.einv[i] == 1.0, "identity_scaling");
        i += 1;
    }
    assert!(data.equilibration.c == 1.0);
    kani::cover!(pv[0] == 3.0 && b[0] == 2.0);
}

/// all-zero columns of [P;A] and all-zero rows of A in scalar cones are left unscaled (f64)
#[kani::proof]
#[kani::unwind(6)]
#[kani::stub(std::collections::hash_map::RandomState::new, stub_random_state)]
pub fn c10_zero_rows_cols() {
    // column 1 of P and of A is structurally empty; row 1 of A is structurally empty
    let p00: f64 = kani::any();
    let a00: f64 = kani::any();
    kani::assume(p00.is_finite() && a00.is_finite());
    let P = CscMatrix::<f64> { m: 2, n: 2, colptr: vec![0, 1, 1], rowval: vec![0], nzval: vec![p00] };
    let A = CscMatrix::<f64> { m: 2, n: 2, colptr: vec![0, 1, 1], rowval: vec![0], nzval: vec![a00] };
    let q = [small_f64(3), small_f64(3)];
    let b = [small_f64(3), small_f64(3)];
    let cones_t = [SupportedConeT::NonnegativeConeT(2)];
    let mut st = settings_f64();
    st.presolve_enable = false;
    st.equilibrate_max_iter = 2;
    let mut data = DefaultProblemData::<f64>::new(&P, &q, &A, &b, &cones_t, &st);
    crate::stack_composite!(cones, f64, [SupportedConeT::<f64>::NonnegativeConeT(2)]);
    data.equilibrate(&cones, &st);
    assert!(data.equilibration.d[1] == 1.0 && data.equilibration.dinv[1] == 1.0, "zero_column_left_unscaled");
    assert!(data.equilibration.e[1] == 1.0 && data.equilibration.einv[1] == 1.0, "zero_row_left_unscaled");
    kani::cover!(p00 == 4.0 && a00 == 0.25, "nonzero entries elsewhere");
}

/// rectification per cone: scalar cones keep elementwise scaling, all other cones get one common factor
#[kani::proof]
#[kani::unwind(6)]
pub fn c10_rectify() {
    let mut e = [F::zero(); 3];
    let mut i = 0;
    while i < 3 {
        e[i] = F::any_nonzero();
        i += 1;
    }
    let sum = e[0] + e[1] + e[2];
    let three = F::new(3);
    let mut d = [F::new(7); 3];
    assert!(!NonnegativeCone::<F>::new(3).rectify_equilibration(&mut d, &e), "nn_cone_needs_no_rectification");
    assert!(d[0] == F::one() && d[1] == F::one() && d[2] == F::one(), "nn_delta_is_one");
    let mut d = [F::new(7); 3];
    assert!(!ZeroCone::<F>::new(3).rectify_equilibration(&mut d, &e), "zero_cone_needs_no_rectification");
    assert!(d[0] == F::one() && d[2] == F::one(), "zero_delta_is_one");
    let mut d = [F::new(7); 3];
    assert!(SecondOrderCone::<F>::new(3).rectify_equilibration(&mut d, &e), "soc_is_rectified");
    let mut i = 0;
    while i < 3 {
        assert!(d[i] * e[i] * three == sum, "soc_delta_times_e_is_the_mean_of_e");
        i += 1;
    }
    let mut d = [F::new(7); 3];
    assert!(ExponentialCone::<F>::new().rectify_equilibration(&mut d, &e), "exp_cone_is_rectified");
    assert!(d[0] * e[0] == d[1] * e[1] && d[1] * e[1] == d[2] * e[2] && d[0] * e[0] * three == sum, "exp_delta_times_e_is_constant");
    let mut d = [F::new(7); 3];
    assert!(PowerCone::<F>::new(F::new(7)).rectify_equilibration(&mut d, &e), "pow_cone_is_rectified");
    assert!(d[0] * e[0] == d[1] * e[1] && d[1] * e[1] == d[2] * e[2], "pow_delta_times_e_is_constant");
    kani::cover!(e[0].0 == 2 && e[1].0 == 5);
}

// ---------------------------------------------------------------------------------------------
// cumulative scaling factors stay within [min_scaling, max_scaling]  (f64)
//
// Trick: every data entry is a POWER OF TWO with a SYMBOLIC EXPONENT (mantissa bits constant), so
// products / quotients / reciprocals are exact exponent arithmetic and the bit-blasted multipliers
// collapse; only sqrt of an odd power of two and the non-dyadic bounds 1e-4 / 1e4 round.  The data
// range (2^-40 .. 2^40) spans 24 orders of magnitude, i.e. the badly scaled regime in which the
// clipping is active over several sweeps.
// ---------------------------------------------------------------------------------------------
fn pow2_any(lo: i32, hi: i32) -> f64 {
    let k: i32 = kani::any();
    kani::assume(k >= lo && k <= hi);
    f64::from_bits(((1023 + k) as u64) << 52)
}

fn bounds_pow2(sweeps: u32) {
    let p = pow2_any(-40, 40);
    let q = pow2_any(-40, 40);
    let a = pow2_any(-40, 40);
    let b = pow2_any(-10, 10);
    let P = CscMatrix::<f64> { m: 1, n: 1, colptr: vec![0, 1], rowval: vec![0], nzval: vec![p] };
    let A = CscMatrix::<f64> { m: 1, n: 1, colptr: vec![0, 1], rowval: vec![0], nzval: vec![a] };
    let cones_t = [SupportedConeT::NonnegativeConeT(1)];
    let mut st = settings_f64();
    st.presolve_enable = false;
    st.equilibrate_max_iter = sweeps;
    let (lo, hi) = (st.equilibrate_min_scaling, st.equilibrate_max_scaling);
    let mut data = DefaultProblemData::<f64>::new(&P, &[q], &A, &[b], &cones_t, &st);
    crate::stack_composite!(cones, f64, [SupportedConeT::<f64>::NonnegativeConeT(1)]);
    data.equilibrate(&cones, &st);
    let eq = &data.equilibration;
    let slack = 1.0 + 8.0 * f64::EPSILON;
    assert!(eq.d[0] >= lo / slack && eq.d[0] <= hi * slack, "cumulative_d_within_bounds");
    assert!(eq.e[0] >= lo / slack && eq.e[0] <= hi * slack, "cumulative_e_within_bounds");
    assert!(eq.c >= lo / slack && eq.c <= hi * slack, "cumulative_c_within_bounds");
    kani::cover!(eq.c < 1e-3, "objective scale driven to its lower bound");
    kani::cover!(eq.d[0] > 1e3, "variable scale driven to its upper bound");
}

#[kani::proof]
#[kani::unwind(5)]
#[kani::stub(std::collections::hash_map::RandomState::new, stub_random_state)]
pub fn c10_bounds_pow2_2sweeps() {
    bounds_pow2(2);
}

#[kani::proof]
#[kani::unwind(6)]
#[kani::stub(std::collections::hash_map::RandomState::new, stub_random_state)]
pub fn c10_bounds_pow2_3sweeps() {
    bounds_pow2(3);
}

/// non-square data (m = 2 rows, n = 1 column), ONE Ruiz sweep: every row and every column factor is clipped
/// into [min, max] - also the rows beyond index min(m, n) - 1.  Data are powers of two over 24 orders of
/// magnitude; P = 0 (no objective scaling), so the sweep is the row / column clipping only.
#[kani::proof]
#[kani::unwind(5)]
#[kani::stub(std::collections::hash_map::RandomState::new, stub_random_state)]
pub fn c10_bounds_pow2_nonsquare_1sweep() {
    let a0 = pow2_any(-40, 40);
    let a1 = pow2_any(-40, 40);
    let P = CscMatrix::<f64> { m: 1, n: 1, colptr: vec![0, 0], rowval: vec![], nzval: vec![] };
    let A = CscMatrix::<f64> { m: 2, n: 1, colptr: vec![0, 2], rowval: vec![0, 1], nzval: vec![a0, a1] };
    let cones_t = [SupportedConeT::NonnegativeConeT(2)];
    let mut st = settings_f64();
    st.presolve_enable = false;
    st.equilibrate_max_iter = 1;
    let (lo, hi) = (st.equilibrate_min_scaling, st.equilibrate_max_scaling);
    let mut data = DefaultProblemData::<f64>::new(&P, &[1.0], &A, &[1.0, 1.0], &cones_t, &st);
    crate::stack_composite!(cones, f64, [SupportedConeT::<f64>::NonnegativeConeT(2)]);
    data.equilibrate(&cones, &st);
    let eq = &data.equilibration;
    let slack = 1.0 + 8.0 * f64::EPSILON;
    assert!(eq.d[0] >= lo / slack && eq.d[0] <= hi * slack, "column_factor_within_bounds");
    assert!(eq.e[0] >= lo / slack && eq.e[0] <= hi * slack, "first_row_factor_within_bounds");
    assert!(eq.e[1] >= lo / slack && eq.e[1] <= hi * slack, "row_factor_beyond_the_number_of_columns_within_bounds");
    kani::cover!(eq.e[1] > 1e3, "trailing row driven to the upper bound");
    kani::cover!(eq.e[1] < 1e-3, "trailing row driven to the lower bound");
}
