//! C14 — nonsymmetric-cone barrier calculus (exponential and power cone): the stored dual-barrier
//! gradient is the first derivative of the dual barrier, the stored Hessian is the derivative of
//! the gradient, and the third-order correction is -1/2 of the third derivative contracted with
//! the Newton-scaled slack direction and the dual direction.
//!
//! Method: the REAL generic cone code is instantiated at first-order jets over GF(p) (jet.rs):
//! exact differentiation of every rational expression, `ln`/`powf` uninterpreted with their
//! derivative rules.  Decided for all field values of z, directions and exponent alpha.
//! Not decided (outside): membership predicates vs. the cone definitions, the conjugacy of
//! gradient_primal (Wright-omega / Newton iterations), the primal-dual scaling matrix (needs
//! gradient_primal), unit_initialization constants, the generalised power cone.
use crate::fp::*;
use crate::jet::*;
use clarabel::verif_hooks::cones::verif_hooks_exp as xh;
use clarabel::verif_hooks::cones::verif_hooks_pow as ph;
use clarabel::verif_hooks::cones::*;
use num_traits::{Float, One, Zero};

const P: u16 = 13;
type F = Fp<P>;
type J = Jet<P>;

fn any_point() -> [F; 3] {
    [F::any_nonzero(), F::any(), F::any_nonzero()]
}

fn jets(z: &[F; 3], dir: &[F; 3]) -> [J; 3] {
    [J::new(z[0], dir[0]), J::new(z[1], dir[1]), J::new(z[2], dir[2])]
}

fn unit(j: usize) -> [F; 3] {
    let mut e = [F::zero(); 3];
    e[j] = F::one();
    e
}

/// symmetric 3x3 from the packed upper triangle (00 01 11 02 12 22)
fn unpack<T: Copy>(h: &[T; 6]) -> [[T; 3]; 3] {
    [[h[0], h[1], h[3]], [h[1], h[2], h[4]], [h[3], h[4], h[5]]]
}

// ------------------------------------------------------------------------------------------
// exponential cone
// ------------------------------------------------------------------------------------------

/// exp cone: nonzero arguments of every log, nonzero denominators
fn exp_admissible(z: &[F; 3]) -> bool {
    // l = ln(-z2/z0), r = -z0 l - z0 + z1 ; the value of l is uninterpreted: r != 0 is checked by the caller
    z[0].0 != 0 && z[2].0 != 0
}

/// d/dz_j f*(z) == grad[j]   (j symbolic)
#[kani::proof]
#[kani::unwind(14)]
pub fn c14_exp_grad_is_derivative_of_dual_barrier() {
    let z = any_point();
    kani::assume(exp_admissible(&z));
    let j: usize = kani::any();
    kani::assume(j < 3);
    let zj = jets(&z, &unit(j));
    let mut c = ExponentialCone::<J>::new();
    xh::update_dual_grad_H(&mut c, &zj);
    let g = xh::grad(&c);
    // r = 1/(-grad[1]) must be a nonzero finite value for the barrier to be defined
    kani::assume(g[1].a.0 != 0);
    let f = xh::barrier_dual(&mut c, &zj);
    assert!(f.b == g[j].a, "stored_gradient_is_the_derivative_of_the_dual_barrier");
    kani::cover!(j == 0 && g[0].a.0 > 1, "derivative wrt z1");
    kani::cover!(j == 2, "derivative wrt z3");
}

/// d/dz_j grad[i] == H[i][j]
#[kani::proof]
#[kani::unwind(14)]
pub fn c14_exp_hessian_is_derivative_of_grad() {
    let z = any_point();
    kani::assume(exp_admissible(&z));
    let j: usize = kani::any();
    kani::assume(j < 3);
    let zj = jets(&z, &unit(j));
    let mut c = ExponentialCone::<J>::new();
    xh::update_dual_grad_H(&mut c, &zj);
    let g = xh::grad(&c);
    kani::assume(g[1].a.0 != 0);
    let h = unpack(&xh::H_dual(&c));
    let mut i = 0;
    while i < 3 {
        assert!(g[i].b == h[i][j].a, "stored_hessian_is_the_derivative_of_the_stored_gradient");
        i += 1;
    }
    kani::cover!(j == 0 && h[0][0].a.0 > 1, "second derivative wrt z1");
}

/// higher_correction(ds, v) == -1/2 * d/dt [ H(z + t v) u ] at t=0, where H u = ds
/// `basis`: u = lambda e_k, v = mu e_j with symbolic indices and symbolic field factors (the correction is
/// bilinear in (u, v); the full-vector versions are the thorough tier)
fn any_dir<const Q: u16>(basis: bool) -> [Fp<Q>; 3] {
    if basis {
        let k: usize = kani::any();
        kani::assume(k < 3);
        let mut e = [Fp::<Q>::zero(); 3];
        e[k] = Fp::<Q>::any();
        e
    } else {
        [Fp::<Q>::any(), Fp::<Q>::any(), Fp::<Q>::any()]
    }
}

fn exp_higher_correction<const Q: u16>(basis: bool) {
    let z = any_point_q::<Q>();
    kani::assume((z[0].0 != 0 && z[2].0 != 0));
    let v = any_dir::<Q>(basis);
    let u = any_dir::<Q>(basis);
    let zj = jets_q::<Q>(&z, &v);
    let mut c = ExponentialCone::<Jet<Q>>::new();
    xh::update_dual_grad_H(&mut c, &zj);
    let g = xh::grad(&c);
    kani::assume(g[1].a.0 != 0);
    xh::set_z(&mut c, zj);
    let h = unpack(&xh::H_dual(&c));
    // ds := H u  (value parts), so that the Newton-scaled direction recovered inside is u
    let mut ds = [Jet::<Q>::zero(); 3];
    let mut want = [Fp::<Q>::zero(); 3];
    let mut i = 0;
    while i < 3 {
        let mut acc = Fp::<Q>::zero();
        let mut dacc = Fp::<Q>::zero();
        let mut k = 0;
        while k < 3 {
            acc = acc + h[i][k].a * u[k];
            dacc = dacc + h[i][k].b * u[k];
            k += 1;
        }
        ds[i] = Jet::<Q>::constant(acc);
        want[i] = dacc; // (d/dt H(z+tv)) u
        i += 1;
    }
    let vj = [Jet::<Q>::constant(v[0]), Jet::<Q>::constant(v[1]), Jet::<Q>::constant(v[2])];
    let mut eta = [Jet::<Q>::zero(); 3];
    // the Cholesky solve inside needs all leading principal minors of H nonzero (over the reals H is
    // positive definite, so they are positive; in GF(p) `t <= 0` means t == 0 and the code then sets eta = 0)
    let m2 = h[0][0].a * h[1][1].a - h[0][1].a * h[0][1].a;
    let det = h[0][0].a * (h[1][1].a * h[2][2].a - h[1][2].a * h[1][2].a) - h[0][1].a * (h[0][1].a * h[2][2].a - h[1][2].a * h[0][2].a)
        + h[0][2].a * (h[0][1].a * h[1][2].a - h[1][1].a * h[0][2].a);
    kani::assume(h[0][0].a.0 != 0 && m2.0 != 0 && det.0 != 0);
    xh::higher_correction(&mut c, &mut eta, &ds, &vj);
    let two = Fp::<Q>::new(2);
    let mut i = 0;
    while i < 3 {
        assert!(eta[i].a * two == -want[i], "third_order_correction_is_minus_half_third_derivative_contracted_with_u_and_v");
        i += 1;
    }
    kani::cover!(true, "opt: end reached");
    kani::cover!(eta[0].a.0 != 0, "opt: eta0 nonzero");
    kani::cover!(eta[1].a.0 != 0, "opt: eta1 nonzero");
    kani::cover!(eta[2].a.0 != 0, "opt: eta2 nonzero");
    kani::cover!(eta[0].a.0 != 0 && eta[2].a.0 != 0, "nonzero correction reached");
    kani::cover!(u[0].0 == 2 && v[2].0 == 3 && eta[0].a.0 > 0, "opt: nontrivial directions");
}


#[kani::proof]
#[kani::unwind(14)]
pub fn c14_exp_higher_correction_is_third_derivative() {
    exp_higher_correction::<13>(false);
}
#[kani::proof]
#[kani::unwind(14)]
pub fn c14_exp_higher_correction_basis() {
    exp_higher_correction::<13>(true);
}

fn any_point_q<const Q: u16>() -> [Fp<Q>; 3] {
    [Fp::<Q>::any_nonzero(), Fp::<Q>::any(), Fp::<Q>::any_nonzero()]
}
fn jets_q<const Q: u16>(z: &[Fp<Q>; 3], dir: &[Fp<Q>; 3]) -> [Jet<Q>; 3] {
    [Jet::<Q>::new(z[0], dir[0]), Jet::<Q>::new(z[1], dir[1]), Jet::<Q>::new(z[2], dir[2])]
}

// ------------------------------------------------------------------------------------------
// power cone
// ------------------------------------------------------------------------------------------
fn any_alpha() -> F {
    let a = F::any();
    kani::assume(a.0 != 0 && a.0 != 1);
    a
}

/// nonzero psi = phi - z3^2 (phi uninterpreted): read back from the stored gradient (grad[2] = 2 z3 / psi)
fn pow_setup(dir: &[F; 3]) -> (PowerCone<J>, [J; 3]) {
    let z = [F::any_nonzero(), F::any_nonzero(), F::any_nonzero()];
    let alpha = any_alpha();
    let zj = jets(&z, dir);
    let mut c = PowerCone::<J>::new(J::constant(alpha));
    ph::update_dual_grad_H(&mut c, &zj);
    let g = ph::grad(&c);
    kani::assume(g[2].a.0 != 0); // psi finite and nonzero
    (c, zj)
}

#[kani::proof]
#[kani::unwind(14)]
pub fn c14_pow_grad_is_derivative_of_dual_barrier() {
    let j: usize = kani::any();
    kani::assume(j < 3);
    let (mut c, zj) = pow_setup(&unit(j));
    let g = ph::grad(&c);
    let f = ph::barrier_dual(&mut c, &zj);
    assert!(f.b == g[j].a, "stored_gradient_is_the_derivative_of_the_dual_barrier");
    kani::cover!(j == 0 && g[0].a.0 > 1);
    kani::cover!(j == 2);
}

#[kani::proof]
#[kani::unwind(14)]
pub fn c14_pow_hessian_is_derivative_of_grad() {
    let j: usize = kani::any();
    kani::assume(j < 3);
    let (c, _zj) = pow_setup(&unit(j));
    let g = ph::grad(&c);
    let h = unpack(&ph::H_dual(&c));
    let mut i = 0;
    while i < 3 {
        assert!(g[i].b == h[i][j].a, "stored_hessian_is_the_derivative_of_the_stored_gradient");
        i += 1;
    }
    kani::cover!(j == 1 && h[1][1].a.0 > 1);
}

/// Membership predicates of the power cone: K_pow = { s1,s2 > 0, s1^a s2^(1-a) >= |s3| } and its dual are symmetric
/// under s3 -> -s3, and exclude s1 = 0 / s2 = 0.  Run on the real generic code over Jet<GF(13)> with exp/ln
/// uninterpreted (memoised: same argument, same value): the symmetry holds for EVERY interpretation of exp/ln, so
/// it is demanded of any correct implementation; a predicate that lost the absolute value (compares with s3 instead
/// of |s3| or s3^2) is refuted by a concrete field point with exp(..) = s3 != 0.
#[kani::proof]
#[kani::unwind(14)]
pub fn c14_pow_membership_symmetric_in_s3() {
    let alpha = any_alpha();
    let c = PowerCone::<J>::new(J::constant(alpha));
    let s = [J::constant(F::any()), J::constant(F::any()), J::constant(F::any())];
    let m = [s[0], s[1], -s[2]];
    let p = ph::is_primal_feasible(&c, &s);
    let d = ph::is_dual_feasible(&c, &s);
    assert!(p == ph::is_primal_feasible(&c, &m), "primal_membership_depends_on_s3_only_through_its_magnitude");
    assert!(d == ph::is_dual_feasible(&c, &m), "dual_membership_depends_on_z3_only_through_its_magnitude");
    if s[0].a.0 == 0 || s[1].a.0 == 0 {
        assert!(!p && !d, "points_with_a_vanishing_first_or_second_coordinate_are_not_interior");
    }
    kani::cover!(p && s[2].a.0 != 0, "primal interior point with nonzero s3");
    kani::cover!(!p && s[0].a.0 != 0 && s[1].a.0 != 0, "rejected by the product test");
    kani::cover!(d && s[2].a.0 != 0, "dual interior point with nonzero z3");
}

fn pow_higher_correction<const Q: u16>(basis: bool) {
    let v = any_dir::<Q>(basis);
    let u = any_dir::<Q>(basis);
    let (mut c, zj) = pow_setup_q::<Q>(&v);
    ph::set_z(&mut c, zj);
    let h = unpack(&ph::H_dual(&c));
    let mut ds = [Jet::<Q>::zero(); 3];
    let mut want = [Fp::<Q>::zero(); 3];
    let mut i = 0;
    while i < 3 {
        let mut acc = Fp::<Q>::zero();
        let mut dacc = Fp::<Q>::zero();
        let mut k = 0;
        while k < 3 {
            acc = acc + h[i][k].a * u[k];
            dacc = dacc + h[i][k].b * u[k];
            k += 1;
        }
        ds[i] = Jet::<Q>::constant(acc);
        want[i] = dacc;
        i += 1;
    }
    let vj = [Jet::<Q>::constant(v[0]), Jet::<Q>::constant(v[1]), Jet::<Q>::constant(v[2])];
    let mut eta = [Jet::<Q>::zero(); 3];
    let m2 = h[0][0].a * h[1][1].a - h[0][1].a * h[0][1].a;
    let det = h[0][0].a * (h[1][1].a * h[2][2].a - h[1][2].a * h[1][2].a) - h[0][1].a * (h[0][1].a * h[2][2].a - h[1][2].a * h[0][2].a)
        + h[0][2].a * (h[0][1].a * h[1][2].a - h[1][1].a * h[0][2].a);
    kani::assume(h[0][0].a.0 != 0 && m2.0 != 0 && det.0 != 0);
    ph::higher_correction(&mut c, &mut eta, &ds, &vj);
    let two = Fp::<Q>::new(2);
    let mut i = 0;
    while i < 3 {
        assert!(eta[i].a * two == -want[i], "third_order_correction_is_minus_half_third_derivative_contracted_with_u_and_v");
        i += 1;
    }
    kani::cover!(eta[1].a.0 > 0 && eta[0].a.0 > 0, "nonzero correction reached");
    kani::cover!(u[1].0 == 2 && v[0].0 == 3 && eta[1].a.0 > 0, "opt: nontrivial directions");
}


fn pow_setup_q<const Q: u16>(dir: &[Fp<Q>; 3]) -> (PowerCone<Jet<Q>>, [Jet<Q>; 3]) {
    let z = [Fp::<Q>::any_nonzero(), Fp::<Q>::any_nonzero(), Fp::<Q>::any_nonzero()];
    let alpha = Fp::<Q>::any();
    kani::assume(alpha.0 != 0 && alpha.0 != 1);
    let zj = jets_q::<Q>(&z, dir);
    let mut c = PowerCone::<Jet<Q>>::new(Jet::<Q>::constant(alpha));
    ph::update_dual_grad_H(&mut c, &zj);
    let g = ph::grad(&c);
    kani::assume(g[2].a.0 != 0); // psi finite and nonzero
    (c, zj)
}
#[kani::proof]
#[kani::unwind(14)]
pub fn c14_pow_higher_correction_is_third_derivative() {
    pow_higher_correction::<13>(false);
}
#[kani::proof]
#[kani::unwind(14)]
pub fn c14_pow_higher_correction_basis() {
    pow_higher_correction::<13>(true);
}

// ------------------------------------------------------------------------------------------
// higher_correction, compositionally: (1) the explicit 3x3 Cholesky factor + solve IS a linear solver
// (lemma, real code, GF(13)); (2) higher_correction with those two routines replaced by their
// specification (hook bodies `spec_factor` / `spec_solve`: Cramer's rule, no square roots).  The
// monolithic harnesses (three nested nondeterministic square roots inside a degree-10 polynomial
// identity) did not finish in an hour; they stay registered in the thorough tier.
// ------------------------------------------------------------------------------------------
use clarabel::algebra::densesym3x3::verif_hooks_d3 as d3;

/// lower-triangular matrix from the packed storage (00 01 11 02 12 22; L[(i,j)], i >= j, is stored at (j,i))
fn lower(l: &[F; 6]) -> [[F; 3]; 3] {
    let z = F::zero();
    [[l[0], z, z], [l[1], l[2], z], [l[3], l[4], l[5]]]
}

/// lemma (i): factor succeeds => L L' = H with a nonzero diagonal; factor fails => a leading principal
/// minor vanishes (in the field `t <= 0` is `t == 0`)
#[kani::proof]
#[kani::unwind(8)]
pub fn c14_chol3_factor_is_llt() {
    let h: [F; 6] = [F::any(), F::any(), F::any(), F::any(), F::any(), F::any()];
    let m = unpack(&h);
    let m2 = m[0][0] * m[1][1] - m[0][1] * m[0][1];
    let det = m[0][0] * (m[1][1] * m[2][2] - m[1][2] * m[1][2]) - m[0][1] * (m[0][1] * m[2][2] - m[1][2] * m[0][2])
        + m[0][2] * (m[0][1] * m[1][2] - m[1][1] * m[0][2]);
    match d3::chol3_factor(h) {
        Some(l) => {
            let lm = lower(&l);
            let mut i = 0;
            while i < 3 {
                let mut j = 0;
                while j <= i {
                    let v = lm[i][0] * lm[j][0] + lm[i][1] * lm[j][1] + lm[i][2] * lm[j][2];
                    assert!(v == m[i][j], "factor_times_its_transpose_is_the_matrix");
                    j += 1;
                }
                i += 1;
            }
            assert!(l[0].0 != 0 && l[2].0 != 0 && l[5].0 != 0, "factor_has_a_nonzero_diagonal");
            kani::cover!(l[1].0 != 0 && l[4].0 == 3, "coupled factor");
        }
        None => {
            assert!(m[0][0].0 == 0 || m2.0 == 0 || det.0 == 0, "failure_only_for_a_vanishing_leading_minor");
            kani::cover!(m[0][0].0 != 0, "opt: failure at a later pivot");
        }
    }
}

/// lemma (ii): for ANY lower-triangular factor with a nonzero diagonal the explicit forward/backward
/// substitution returns the solution of (L L') x = b
#[kani::proof]
#[kani::unwind(8)]
pub fn c14_chol3_solve_inverts_llt() {
    let l: [F; 6] = [F::any_nonzero(), F::any(), F::any_nonzero(), F::any(), F::any(), F::any_nonzero()];
    // b = lambda e_k (the solve is linear in b; with a full symbolic b the query did not finish in 30 min)
    let k: usize = kani::any();
    kani::assume(k < 3);
    let mut b = [F::zero(); 3];
    b[k] = F::any();
    let x = d3::chol3_solve(l, b);
    let lm = lower(&l);
    // y = L' x ; L y == b
    let mut y = [F::zero(); 3];
    let mut i = 0;
    while i < 3 {
        y[i] = lm[0][i] * x[0] + lm[1][i] * x[1] + lm[2][i] * x[2];
        i += 1;
    }
    let mut i = 0;
    while i < 3 {
        assert!(lm[i][0] * y[0] + lm[i][1] * y[1] + lm[i][2] * y[2] == b[i], "solve_returns_the_solution_of_LLt_x_eq_b");
        i += 1;
    }
    kani::cover!(x[0].0 == 3 && b[1].0 == 2 && l[1].0 != 0, "solved a coupled system");
}

#[kani::proof]
#[kani::unwind(14)]
#[kani::stub(clarabel::algebra::densesym3x3::DenseMatrixSym3::cholesky_3x3_explicit_factor, clarabel::algebra::densesym3x3::verif_hooks_d3::spec_factor)]
#[kani::stub(clarabel::algebra::densesym3x3::DenseMatrixSym3::cholesky_3x3_explicit_solve, clarabel::algebra::densesym3x3::verif_hooks_d3::spec_solve)]
pub fn c14_exp_higher_correction_spec() {
    exp_higher_correction::<13>(false);
}

#[kani::proof]
#[kani::unwind(14)]
#[kani::stub(clarabel::algebra::densesym3x3::DenseMatrixSym3::cholesky_3x3_explicit_factor, clarabel::algebra::densesym3x3::verif_hooks_d3::spec_factor)]
#[kani::stub(clarabel::algebra::densesym3x3::DenseMatrixSym3::cholesky_3x3_explicit_solve, clarabel::algebra::densesym3x3::verif_hooks_d3::spec_solve)]
pub fn c14_pow_higher_correction_spec() {
    pow_higher_correction::<13>(false);
}

#[kani::proof]
#[kani::unwind(14)]
#[kani::stub(clarabel::algebra::densesym3x3::DenseMatrixSym3::cholesky_3x3_explicit_factor, clarabel::algebra::densesym3x3::verif_hooks_d3::spec_factor)]
#[kani::stub(clarabel::algebra::densesym3x3::DenseMatrixSym3::cholesky_3x3_explicit_solve, clarabel::algebra::densesym3x3::verif_hooks_d3::spec_solve)]
pub fn c14_exp_higher_correction_spec_basis() {
    exp_higher_correction::<13>(true);
}

/// dual scaling fallback: Hs = mu * H
#[kani::proof]
#[kani::unwind(14)]
pub fn c14_dual_scaling_is_mu_times_hessian() {
    let mut c = ExponentialCone::<F>::new();
    let mut h = [F::zero(); 6];
    let mut i = 0;
    while i < 6 {
        h[i] = F::any();
        i += 1;
    }
    xh::set_H_dual(&mut c, h);
    let mu = F::any();
    xh::use_dual_scaling(&mut c, mu);
    let hs = xh::Hs(&c);
    let mut i = 0;
    while i < 6 {
        assert!(hs[i] == mu * h[i], "dual_scaling_is_mu_times_the_hessian");
        i += 1;
    }
    // and get_Hs / mul_Hs expose that matrix
    let mut blk = [F::zero(); 6];
    c.get_Hs(&mut blk);
    let x = [F::any(), F::any(), F::any()];
    let mut y = [F::zero(); 3];
    let mut w = [F::zero(); 3];
    c.mul_Hs(&mut y, &x, &mut w);
    let m = unpack(&hs);
    let mut i = 0;
    while i < 3 {
        assert!(y[i] == m[i][0] * x[0] + m[i][1] * x[1] + m[i][2] * x[2], "mul_Hs_applies_the_scaling_matrix");
        i += 1;
    }
    let mut i = 0;
    while i < 6 {
        assert!(blk[i] == hs[i], "get_Hs_returns_the_scaling_matrix_block");
        i += 1;
    }
    kani::cover!(mu.0 == 3 && h[1].0 == 2);
}

// ------------------------------------------------------------------------------------------
// gradient_primal of the power cone: the Newton-Raphson scalar solve (a float iteration, outside) is replaced
// by an ARBITRARY non-negative result; what is decided, bit-precisely at f64, is how the three components are
// assembled from it: g3 carries the sign of s3 and g1, g2 are the documented expressions OF THAT g3, so that
// <s, g> = -3 whatever the scalar solve returned.  Factors are powers of two (cheap products, exact).
// ------------------------------------------------------------------------------------------
pub fn stub_newton_raphson_powcone<T: clarabel::algebra::FloatT>(_s3: T, _phi: T, _alpha: T) -> T {
    let k: i32 = kani::any();
    kani::assume(k >= -20 && k <= 20);
    T::from_f64(f64::from_bits(((1023 + k) as u64) << 52)).unwrap()
}

fn p2(lo: i32, hi: i32) -> f64 {
    let k: i32 = kani::any();
    kani::assume(k >= lo && k <= hi);
    f64::from_bits(((1023 + k) as u64) << 52)
}

#[kani::proof]
#[kani::unwind(4)]
#[kani::stub(clarabel::solver::core::cones::powcone::_newton_raphson_powcone, stub_newton_raphson_powcone)]
pub fn c14_pow_gradient_primal_assembly() {
    let alpha = p2(-3, -1); // 1/8, 1/4, 1/2
    let c = PowerCone::<f64>::new(alpha);
    let s3mag = p2(-10, 10);
    let neg: bool = kani::any();
    let s = [p2(-10, 10), p2(-10, 10), if neg { -s3mag } else { s3mag }];
    let g = ph::gradient_primal(&c, &s);
    assert!(g[2] != 0.0 && (g[2] < 0.0) == neg, "g3_carries_the_sign_of_s3");
    assert!(g[0] == -(alpha * g[2] * s[2] + 1.0 + alpha) / s[0], "g1_is_assembled_from_the_signed_g3");
    assert!(g[1] == -((1.0 - alpha) * g[2] * s[2] + 2.0 - alpha) / s[1], "g2_is_assembled_from_the_signed_g3");
    assert!(g[0] < 0.0 && g[1] < 0.0, "g1_g2_negative_for_interior_points");
    kani::cover!(neg && g[2] == -4.0, "negative third component");
    kani::cover!(!neg && s[0] == 8.0, "positive third component");
}
