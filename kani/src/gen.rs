//! Shared helpers: symbolic generators and dense reference oracles.
