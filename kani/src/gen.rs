//! Shared helpers: symbolic generators and dense reference oracles.
//!
//! Rule (DESIGN.md §1): no symbolic-length Vec.  Shapes (m, n, nnz) are concrete (const
//! generics), contents are symbolic and constrained by the canonical-format predicate.
use clarabel::algebra::*;
use clarabel::solver::SupportedConeT;

/// column of the k-th stored entry: number of j in 1..=n with colptr[j] <= k
pub fn col_of(colptr: &[usize], k: usize) -> usize {
    let n = colptr.len() - 1;
    let mut c = 0;
    let mut j = 1;
    while j <= n {
        if colptr[j] <= k {
            c += 1;
        }
        j += 1;
    }
    c
}

/// is k the first stored entry of some column (with respect to colptr)?
pub fn is_col_start(colptr: &[usize], k: usize) -> bool {
    let n = colptr.len() - 1;
    let mut j = 0;
    let mut r = false;
    while j <= n {
        if colptr[j] == k {
            r = true;
        }
        j += 1;
    }
    r
}

/// reference predicate: canonical CSC encoding (what `check_format` is documented to accept)
pub fn is_canonical<T>(A: &CscMatrix<T>) -> bool {
    if A.rowval.len() != A.nzval.len() {
        return false;
    }
    if A.colptr.len() != A.n + 1 {
        return false;
    }
    if A.colptr[0] != 0 || A.colptr[A.n] != A.rowval.len() {
        return false;
    }
    let mut j = 0;
    while j < A.n {
        if A.colptr[j] > A.colptr[j + 1] {
            return false;
        }
        j += 1;
    }
    let nnz = A.rowval.len();
    let mut k = 0;
    while k < nnz {
        if A.rowval[k] >= A.m {
            return false;
        }
        if k > 0 && !is_col_start(&A.colptr, k) && A.rowval[k - 1] >= A.rowval[k] {
            return false;
        }
        k += 1;
    }
    true
}

/// symbolic canonical CSC pattern (colptr, rowval) for an M x N matrix with exactly NNZ stored entries
pub fn any_pattern<const M: usize, const N: usize, const NNZ: usize>() -> (Vec<usize>, Vec<usize>) {
    let mut colptr = vec![0usize; N + 1];
    let mut j = 1;
    while j < N {
        let c: usize = kani::any();
        kani::assume(c >= colptr[j - 1] && c <= NNZ);
        colptr[j] = c;
        j += 1;
    }
    colptr[N] = NNZ;
    let mut rowval = vec![0usize; NNZ];
    let mut k = 0;
    while k < NNZ {
        let r: usize = kani::any();
        kani::assume(r < M);
        if k > 0 && !is_col_start(&colptr, k) {
            kani::assume(rowval[k - 1] < r);
        }
        rowval[k] = r;
        k += 1;
    }
    (colptr, rowval)
}

/// small symbolic integer in [-lim, lim]
pub fn small_i32(lim: i32) -> i32 {
    let v: i32 = kani::any();
    kani::assume(v >= -lim && v <= lim);
    v
}

/// small symbolic integer-valued f64 in [-lim, lim] (IEEE arithmetic on these is exact)
pub fn small_f64(lim: i8) -> f64 {
    let v: i8 = kani::any();
    kani::assume(v >= -lim && v <= lim);
    v as f64
}

/// symbolic canonical M x N i32 matrix with NNZ stored entries (values in [-4,4], zeros allowed)
pub fn any_csc_i32<const M: usize, const N: usize, const NNZ: usize>() -> CscMatrix<i32> {
    let (colptr, rowval) = any_pattern::<M, N, NNZ>();
    let mut nzval = vec![0i32; NNZ];
    let mut k = 0;
    while k < NNZ {
        nzval[k] = small_i32(4);
        k += 1;
    }
    CscMatrix { m: M, n: N, colptr, rowval, nzval }
}

/// symbolic canonical M x N f64 matrix with NNZ stored entries, small integer values
pub fn any_csc_f64<const M: usize, const N: usize, const NNZ: usize>(lim: i8) -> CscMatrix<f64> {
    let (colptr, rowval) = any_pattern::<M, N, NNZ>();
    let mut nzval = vec![0f64; NNZ];
    let mut k = 0;
    while k < NNZ {
        nzval[k] = small_f64(lim);
        k += 1;
    }
    CscMatrix { m: M, n: N, colptr, rowval, nzval }
}

/// dense meaning of a (dimension-consistent) CSC matrix; duplicates are summed
pub fn dense_i32<const M: usize, const N: usize>(A: &CscMatrix<i32>) -> [[i32; N]; M] {
    let mut d = [[0i32; N]; M];
    let nnz = A.rowval.len();
    let mut k = 0;
    while k < nnz {
        let c = col_of(&A.colptr, k);
        d[A.rowval[k]][c] += A.nzval[k];
        k += 1;
    }
    d
}

pub fn dense_f64<const M: usize, const N: usize>(A: &CscMatrix<f64>) -> [[f64; N]; M] {
    let mut d = [[0f64; N]; M];
    let nnz = A.rowval.len();
    let mut k = 0;
    while k < nnz {
        let c = col_of(&A.colptr, k);
        d[A.rowval[k]][c] += A.nzval[k];
        k += 1;
    }
    d
}

/// bitwise equality of f64 (NaN == NaN, +0 != -0)
pub fn same_bits(a: f64, b: f64) -> bool {
    a.to_bits() == b.to_bits()
}

/// the default settings as a struct literal (the builder allocates and validates strings; not the subject)
pub fn settings_f64() -> clarabel::solver::DefaultSettings<f64> {
    settings_t::<f64>()
}

/// default settings for any scalar type satisfying FloatT (constants converted with from_f64)
pub fn settings_t<T: FloatT>() -> clarabel::solver::DefaultSettings<T> {
    let c = |x: f64| T::from_f64(x).unwrap();
    clarabel::solver::DefaultSettings::<T> {
        max_iter: 200,
        time_limit: f64::INFINITY,
        verbose: false,
        max_step_fraction: c(0.99),
        tol_gap_abs: c(1e-8),
        tol_gap_rel: c(1e-8),
        tol_feas: c(1e-8),
        tol_infeas_abs: c(1e-8),
        tol_infeas_rel: c(1e-8),
        tol_ktratio: c(1e-6),
        reduced_tol_gap_abs: c(5e-5),
        reduced_tol_gap_rel: c(5e-5),
        reduced_tol_feas: c(1e-4),
        reduced_tol_infeas_abs: c(5e-12),
        reduced_tol_infeas_rel: c(5e-5),
        reduced_tol_ktratio: c(1e-4),
        equilibrate_enable: true,
        equilibrate_max_iter: 10,
        equilibrate_min_scaling: c(1e-4),
        equilibrate_max_scaling: c(1e+4),
        linesearch_backtrack_step: c(0.8),
        min_switch_step_length: c(1e-1),
        min_terminate_step_length: c(1e-4),
        max_threads: 0,
        direct_kkt_solver: true,
        direct_solve_method: String::new(),
        static_regularization_enable: true,
        static_regularization_constant: c(1e-8),
        static_regularization_proportional: c(4.930380657631324e-32),
        dynamic_regularization_enable: true,
        dynamic_regularization_eps: c(1e-13),
        dynamic_regularization_delta: c(2e-7),
        iterative_refinement_enable: true,
        iterative_refinement_reltol: c(1e-13),
        iterative_refinement_abstol: c(1e-12),
        iterative_refinement_max_iter: 10,
        iterative_refinement_stop_ratio: c(5.0),
        presolve_enable: true,
        #[cfg(feature = "sdp")]
        chordal_decomposition_enable: true,
        #[cfg(feature = "sdp")]
        chordal_decomposition_merge_method: String::new(),
        #[cfg(feature = "sdp")]
        chordal_decomposition_compact: true,
        #[cfg(feature = "sdp")]
        chordal_decomposition_complete_dual: true,
    }
}

/// a symbolic cone of kind Zero / Nonnegative / SecondOrder (kinds 0,1,2) or a fixed 3-d
/// exponential / power cone (kinds 3,4) with symbolic dimension 0..=maxdim for the first three
pub fn any_cone(maxdim: usize) -> SupportedConeT<f64> {
    let kind: u8 = kani::any();
    kani::assume(kind <= 4);
    let d: usize = kani::any();
    kani::assume(d <= maxdim);
    match kind {
        0 => SupportedConeT::ZeroConeT(d),
        1 => SupportedConeT::NonnegativeConeT(d),
        2 => SupportedConeT::SecondOrderConeT(d),
        3 => SupportedConeT::ExponentialConeT(),
        _ => SupportedConeT::PowerConeT(0.5),
    }
}

pub fn is_nn(c: &SupportedConeT<f64>) -> bool {
    matches!(c, SupportedConeT::NonnegativeConeT(_))
}

/// elementwise equality of two CSC matrices (avoids the byte-wise memcmp loop of `==` on Vec)
pub fn csc_eq<T: PartialEq>(a: &CscMatrix<T>, b: &CscMatrix<T>) -> bool {
    if a.m != b.m || a.n != b.n || a.colptr.len() != b.colptr.len() || a.rowval.len() != b.rowval.len() || a.nzval.len() != b.nzval.len() {
        return false;
    }
    let mut i = 0;
    while i < a.colptr.len() {
        if a.colptr[i] != b.colptr[i] {
            return false;
        }
        i += 1;
    }
    let mut k = 0;
    while k < a.rowval.len() {
        if a.rowval[k] != b.rowval[k] || !(a.nzval[k] == b.nzval[k]) {
            return false;
        }
        k += 1;
    }
    true
}

/// same sparsity pattern, elementwise
pub fn same_pattern<T, U>(a: &CscMatrix<T>, b: &CscMatrix<U>) -> bool {
    if a.m != b.m || a.n != b.n || a.colptr.len() != b.colptr.len() || a.rowval.len() != b.rowval.len() {
        return false;
    }
    let mut i = 0;
    while i < a.colptr.len() {
        if a.colptr[i] != b.colptr[i] {
            return false;
        }
        i += 1;
    }
    let mut k = 0;
    while k < a.rowval.len() {
        if a.rowval[k] != b.rowval[k] {
            return false;
        }
        k += 1;
    }
    true
}

/// Builds a `CompositeCone<T>` whose cone list lives in a STACK array instead of a heap buffer.
/// CBMC does not propagate constants through structs/enums stored in heap objects (they are moved
/// there byte-wise), so with the ordinary constructor every `cone.numel()` / enum dispatch is symbolic
/// for the symbolic executor and every loop over a cone unwinds to the bound; through a typed stack
/// array the same reads are concrete.  The Vec is fabricated over the array with `from_raw_parts` and
/// both are wrapped in ManuallyDrop (never deallocated).  The composite itself is built by the hook
/// `from_cone_vec` (same field computations as `CompositeCone::new`, validated natively by tv_composite).
#[macro_export]
macro_rules! stack_composite {
    ($name:ident, $T:ty, [$($t:expr),* $(,)?]) => {
        let mut __store = core::mem::ManuallyDrop::new([$(clarabel::verif_hooks::cones::make_cone::<$T>(&$t)),*]);
        let __n = __store.len();
        let __v = unsafe { Vec::from_raw_parts(__store.as_mut_ptr(), __n, __n) };
        #[allow(unused_mut)]
        let mut $name = core::mem::ManuallyDrop::new(clarabel::verif_hooks::cones::verif_hooks_cc::from_cone_vec(__v));
    };
}
