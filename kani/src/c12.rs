//! C12 — sparse LDL' engine.
use clarabel::qdldl::verif_hooks as q;
use clarabel::qdldl::*;

/// reference: is `p` a permutation of 0..n ?
fn is_perm<const N: usize>(p: &[usize; N]) -> bool {
    let mut seen = [false; N];
    let mut i = 0;
    while i < N {
        if p[i] >= N || seen[p[i]] {
            return false;
        }
        seen[p[i]] = true;
        i += 1;
    }
    true
}

fn invperm_n<const N: usize>() {
    let p: [usize; N] = kani::any();
    let r = q::invperm(&p);
    let ok = is_perm(&p);
    kani::cover!(ok, "valid permutation reached");
    kani::cover!(!ok && p[0] < N, "invalid permutation reached");
    match r {
        Ok(b) => {
            assert!(ok, "invperm_accepts_only_permutations");
            assert!(b.len() == N);
            let mut i = 0;
            while i < N {
                assert!(b[p[i]] == i, "invperm_is_inverse");
                i += 1;
            }
        }
        Err(_) => assert!(!ok, "invperm_rejects_only_nonpermutations"),
    }
}

#[kani::proof]
#[kani::unwind(6)]
pub fn c12_invperm_n4() {
    invperm_n::<4>();
}
