//! C12 — the sparse LDL' engine (QDLDL): factors, solves and refactors correctly or reports errors.
//!
//! Unit chain (post-condition of one unit = pre-condition of the next):
//!   check_structure -> _invperm -> permute_symmetric (+AtoPAPt) -> _etree -> _factor_inner -> _solve
//! Sparsity patterns are enumerated (concrete), numeric values / permutations / signs are symbolic.
//! Algebraic identities are decided over GF(13) (see fp.rs), regularisation logic over f64.
use crate::fp::*;
use crate::gen::*;
use clarabel::algebra::*;
use clarabel::qdldl::verif_hooks as q;
use clarabel::qdldl::*;
use num_traits::{Float, One, Zero};

type F = F13;

/// reference: is `p` a permutation of 0..n ?
fn is_perm<const N: usize>(p: &[usize; N]) -> bool {
    let mut seen = [false; N];
    let mut i = 0;
    while i < N {
        if p[i] >= N || seen[p[i]] {
            return false;
        }
        seen[p[i]] = true;
        i += 1;
    }
    true
}

fn any_perm<const N: usize>() -> [usize; N] {
    let p: [usize; N] = kani::any();
    kani::assume(is_perm(&p));
    p
}

// ------------------------------------------------------------------------------------------
// _invperm
// ------------------------------------------------------------------------------------------
fn invperm_n<const N: usize>() {
    let p: [usize; N] = kani::any();
    let r = q::invperm(&p);
    let ok = is_perm(&p);
    kani::cover!(ok, "valid permutation reached");
    kani::cover!(!ok && p[0] < N, "invalid permutation reached");
    match r {
        Ok(b) => {
            assert!(ok, "invperm_accepts_only_permutations");
            assert!(b.len() == N);
            let mut i = 0;
            while i < N {
                assert!(b[p[i]] == i, "invperm_is_inverse");
                i += 1;
            }
        }
        Err(_) => assert!(!ok, "invperm_rejects_only_nonpermutations"),
    }
}

#[kani::proof]
#[kani::unwind(6)]
pub fn c12_invperm_n4() {
    invperm_n::<4>();
}

#[kani::proof]
#[kani::unwind(7)]
pub fn c12_invperm_n5() {
    invperm_n::<5>();
}

// ------------------------------------------------------------------------------------------
// permute / ipermute (unchecked indexing)
// ------------------------------------------------------------------------------------------
#[kani::proof]
#[kani::unwind(7)]
pub fn c12_perm_roundtrip_n5() {
    const N: usize = 5;
    let p = any_perm::<N>();
    let b: [i32; N] = kani::any();
    let mut x = [0i32; N];
    let mut y = [0i32; N];
    q::permute(&mut x, &b, &p);
    let mut i = 0;
    while i < N {
        assert!(x[i] == b[p[i]], "permute_gathers");
        i += 1;
    }
    q::ipermute(&mut y, &x, &p);
    let mut i = 0;
    while i < N {
        assert!(y[i] == b[i], "ipermute_inverts_permute");
        i += 1;
    }
    kani::cover!(p[0] == 3 && p[4] == 0, "non-identity permutation");
}

// ------------------------------------------------------------------------------------------
// check_structure
// ------------------------------------------------------------------------------------------
fn structure_n<const M: usize, const N: usize, const NNZ: usize>() {
    let (colptr, rowval) = any_pattern::<M, N, NNZ>();
    let A = CscMatrix::<f64> { m: M, n: N, colptr, rowval, nzval: vec![1.0; NNZ] };
    let r = q::check_structure(&A);
    let mut lower = false;
    let mut k = 0;
    while k < NNZ {
        if A.rowval[k] > col_of(&A.colptr, k) {
            lower = true;
        }
        k += 1;
    }
    let mut empty = false;
    let mut j = 0;
    while j < N {
        if A.colptr[j] == A.colptr[j + 1] {
            empty = true;
        }
        j += 1;
    }
    match r {
        Err(QDLDLError::IncompatibleDimension) => assert!(M != N, "incompatible_dimension_iff_non_square"),
        Err(QDLDLError::NotUpperTriangular) => assert!(M == N && lower, "not_upper_triangular_iff_entry_below_diagonal"),
        Err(QDLDLError::EmptyColumn) => assert!(M == N && !lower && empty, "empty_column_iff_some_column_has_no_entry"),
        Err(_) => assert!(false, "no_other_error_from_check_structure"),
        Ok(()) => assert!(M == N && !lower && !empty, "ok_iff_square_upper_triangular_no_empty_column"),
    }
    kani::cover!(r.is_ok() || M != N, "accepted (square) / rejected (non square)");
    kani::cover!(lower || M != N, "entry below the diagonal");
    kani::cover!((empty && !lower) || M != N, "empty column");
}

#[kani::proof]
#[kani::unwind(6)]
pub fn c12_structure_3x3_nnz4() {
    structure_n::<3, 3, 4>();
}
#[kani::proof]
#[kani::unwind(6)]
pub fn c12_structure_3x3_nnz3() {
    structure_n::<3, 3, 3>();
}
#[kani::proof]
#[kani::unwind(6)]
pub fn c12_structure_3x2() {
    structure_n::<3, 2, 3>();
}

// ------------------------------------------------------------------------------------------
// permute_symmetric + AtoPAPt map
// ------------------------------------------------------------------------------------------
fn permute_map_n<const N: usize, const NNZ: usize>() {
    // symbolic canonical upper-triangular pattern, symbolic field values, symbolic valid iperm
    let (colptr, rowval) = any_pattern::<N, N, NNZ>();
    let mut k = 0;
    while k < NNZ {
        kani::assume(rowval[k] <= col_of(&colptr, k));
        k += 1;
    }
    let mut nzval = vec![F::zero(); NNZ];
    let mut k = 0;
    while k < NNZ {
        nzval[k] = F::any();
        k += 1;
    }
    let A = CscMatrix::<F> { m: N, n: N, colptr, rowval, nzval };
    let iperm = any_perm::<N>();
    let (Pm, map) = q::permute_symmetric(&A, &iperm);
    assert!(Pm.m == N && Pm.n == N && Pm.colptr.len() == N + 1 && Pm.rowval.len() == NNZ && Pm.nzval.len() == NNZ, "P_dimensions");
    assert!(Pm.colptr[0] == 0 && Pm.colptr[N] == NNZ, "P_colptr_ends");
    let mut j = 0;
    while j < N {
        assert!(Pm.colptr[j] <= Pm.colptr[j + 1], "P_colptr_monotone");
        j += 1;
    }
    assert!(map.len() == NNZ);
    let mut used = [false; NNZ];
    let mut k = 0;
    while k < NNZ {
        let t = map[k];
        assert!(t < NNZ, "map_in_range");
        assert!(!used[t], "map_is_injective");
        used[t] = true;
        let (r, c) = (A.rowval[k], col_of(&A.colptr, k));
        let (pr, pc) = (iperm[r], iperm[c]);
        let (lo, hi) = if pr <= pc { (pr, pc) } else { (pc, pr) };
        assert!(Pm.rowval[t] == lo, "entry_lands_in_row_min(iperm)");
        assert!(col_of(&Pm.colptr, t) == hi, "entry_lands_in_column_max(iperm)");
        assert!(Pm.nzval[t] == A.nzval[k], "entry_value_carried");
        k += 1;
    }
    kani::cover!(iperm[0] == N - 1 && A.rowval[NNZ - 1] < N - 1, "reversing permutation, off-diagonal last entry");
}

#[kani::proof]
#[kani::unwind(6)]
pub fn c12_permute_map_n3_nnz4() {
    permute_map_n::<3, 4>();
}
#[kani::proof]
#[kani::unwind(7)]
pub fn c12_permute_map_n3_nnz5() {
    permute_map_n::<3, 5>();
}
#[kani::proof]
#[kani::unwind(8)]
pub fn c12_permute_map_n4_nnz6() {
    permute_map_n::<4, 6>();
}

// ------------------------------------------------------------------------------------------
// _etree + _factor_inner on enumerated patterns
// ------------------------------------------------------------------------------------------

/// upper-triangular pattern from bit masks: bit (i,j), i<j, of `off` in column-major order of the
/// strict upper triangle; bit j of `diag` = diagonal entry present. Returns (colptr,rowval) — concrete.
pub fn triu_pattern<const N: usize>(off: u32, diag: u32) -> (Vec<usize>, Vec<usize>) {
    let mut colptr = vec![0usize; N + 1];
    let mut rowval = Vec::new();
    let mut bit = 0;
    let mut j = 0;
    while j < N {
        let mut i = 0;
        while i < j {
            if (off >> bit) & 1 == 1 {
                rowval.push(i);
            }
            bit += 1;
            i += 1;
        }
        if (diag >> j) & 1 == 1 {
            rowval.push(j);
        }
        colptr[j + 1] = rowval.len();
        j += 1;
    }
    (colptr, rowval)
}

/// dense symmetric matrix of a triu CSC matrix
fn dense_sym<const N: usize>(colptr: &[usize], rowval: &[usize], nzval: &[F]) -> [[F; N]; N] {
    let mut a = [[F::zero(); N]; N];
    let mut k = 0;
    while k < rowval.len() {
        let c = col_of(colptr, k);
        let r = rowval[k];
        a[r][c] = nzval[k];
        a[c][r] = nzval[k];
        k += 1;
    }
    a
}

/// reference symbolic factorisation: fill pattern of L by boolean elimination (lower[i][j], i>j)
fn fill_pattern<const N: usize>(colptr: &[usize], rowval: &[usize]) -> [[bool; N]; N] {
    let mut s = [[false; N]; N];
    let mut k = 0;
    while k < rowval.len() {
        let c = col_of(colptr, k);
        let r = rowval[k];
        if r != c {
            s[c][r] = true; // lower triangle: row c > col r
        }
        k += 1;
    }
    let mut p = 0;
    while p < N {
        let mut i = p + 1;
        while i < N {
            if s[i][p] {
                let mut j = p + 1;
                while j < i {
                    if s[j][p] {
                        s[i][j] = true;
                    }
                    j += 1;
                }
            }
            i += 1;
        }
        p += 1;
    }
    s
}

pub struct Factor<const N: usize> {
    pub res: Result<usize, QDLDLError>,
    pub Lp: Vec<usize>,
    pub Li: Vec<usize>,
    pub Lx: Vec<F>,
    pub D: Vec<F>,
    pub Dinv: Vec<F>,
    pub etree: Vec<usize>,
    pub Lnz: Vec<usize>,
    pub bwork: Vec<bool>,
    pub iwork: Vec<usize>,
    pub fwork: Vec<F>,
    pub regcount: usize,
}

/// run the real _etree and _factor_inner (numeric, no regularisation) on (pattern, values)
fn factor<const N: usize>(colptr: &[usize], rowval: &[usize], nzval: &[F]) -> Factor<N> {
    let mut iwork = vec![0usize; 3 * N];
    let mut Lnz = vec![0usize; N];
    let mut etree = vec![0usize; N];
    let r = q::etree(N, colptr, rowval, &mut iwork, &mut Lnz, &mut etree);
    assert!(r.is_ok());
    let mut sum = 0;
    let mut j = 0;
    while j < N {
        sum += Lnz[j];
        j += 1;
    }
    let mut f = Factor::<N> {
        res: Ok(0),
        Lp: vec![0usize; N + 1],
        Li: vec![0usize; sum],
        Lx: vec![F::zero(); sum],
        D: vec![F::zero(); N],
        Dinv: vec![F::zero(); N],
        etree,
        Lnz,
        bwork: vec![false; N],
        iwork,
        fwork: vec![F::zero(); N],
        regcount: 0,
    };
    refactor_in_place(&mut f, colptr, rowval, nzval);
    f
}

fn refactor_in_place<const N: usize>(f: &mut Factor<N>, colptr: &[usize], rowval: &[usize], nzval: &[F]) {
    let dsigns = vec![1i8; N];
    f.res = q::factor_inner(
        N, colptr, rowval, nzval, &mut f.Lp, &mut f.Li, &mut f.Lx, &mut f.D, &mut f.Dinv, &f.Lnz, &f.etree,
        &mut f.bwork, &mut f.iwork, &mut f.fwork, false, &dsigns, false, F::zero(), F::zero(), &mut f.regcount,
    );
}

/// dense unit-lower L from the CSC factor, checking its structural invariants on the way
fn dense_L<const N: usize>(f: &Factor<N>) -> [[F; N]; N] {
    let mut l = [[F::zero(); N]; N];
    let mut seen = [[false; N]; N];
    assert!(f.Lp[0] == 0 && f.Lp[N] == f.Li.len(), "Lp_ends");
    let mut j = 0;
    while j < N {
        l[j][j] = F::one();
        assert!(f.Lp[j] <= f.Lp[j + 1], "Lp_monotone");
        assert!(f.Lp[j + 1] - f.Lp[j] == f.Lnz[j], "Lp_is_cumsum_of_Lnz");
        let mut k = f.Lp[j];
        while k < f.Lp[j + 1] {
            let i = f.Li[k];
            assert!(i < N && i > j, "L_strictly_lower_rows_in_range");
            assert!(!seen[i][j], "L_no_duplicate_entries");
            seen[i][j] = true;
            l[i][j] = f.Lx[k];
            k += 1;
        }
        j += 1;
    }
    l
}

fn any_values(nnz: usize) -> Vec<F> {
    let mut v = vec![F::zero(); nnz];
    let mut k = 0;
    while k < nnz {
        v[k] = F::any();
        k += 1;
    }
    v
}

/// leading principal minors m_1..m_N of a dense symmetric matrix, N <= 4 (cofactor expansions in the field)
fn leading_minors<const N: usize>(a: &[[F; N]; N]) -> [F; N] {
    let mut m = [F::zero(); N];
    m[0] = a[0][0];
    if N > 1 {
        m[1] = a[0][0] * a[1][1] - a[0][1] * a[1][0];
    }
    if N > 2 {
        m[2] = det3(a, [0, 1, 2], [0, 1, 2]);
    }
    if N > 3 {
        // expansion along the last row
        let mut d = F::zero();
        let mut c = 0;
        while c < 4 {
            let cols = match c {
                0 => [1, 2, 3],
                1 => [0, 2, 3],
                2 => [0, 1, 3],
                _ => [0, 1, 2],
            };
            let term = a[3][c] * det3(a, [0, 1, 2], cols);
            // sign (-1)^(3+c)
            if (3 + c) % 2 == 0 {
                d = d + term;
            } else {
                d = d - term;
            }
            c += 1;
        }
        m[3] = d;
    }
    m
}

fn det3<const N: usize>(a: &[[F; N]; N], r: [usize; 3], c: [usize; 3]) -> F {
    a[r[0]][c[0]] * (a[r[1]][c[1]] * a[r[2]][c[2]] - a[r[1]][c[2]] * a[r[2]][c[1]])
        - a[r[0]][c[1]] * (a[r[1]][c[0]] * a[r[2]][c[2]] - a[r[1]][c[2]] * a[r[2]][c[0]])
        + a[r[0]][c[2]] * (a[r[1]][c[0]] * a[r[2]][c[1]] - a[r[1]][c[1]] * a[r[2]][c[0]])
}

/// C12.ldl — for one concrete pattern and *all* field values:
///   Ok  <=> every leading principal minor is nonzero, and then  L D L' = A, Dinv*D = 1, L has the reference fill pattern
///   Err(ZeroPivot) otherwise
pub fn ldl_pattern<const N: usize>(off: u32, diag: u32) {
    let (colptr, rowval) = triu_pattern::<N>(off, diag);
    let nnz = rowval.len();
    let nzval = any_values(nnz);
    let a = dense_sym::<N>(&colptr, &rowval, &nzval);
    let f = factor::<N>(&colptr, &rowval, &nzval);
    let minors = leading_minors(&a);
    let mut all_nonzero = true;
    let mut i = 0;
    while i < N {
        if minors[i].0 == 0 {
            all_nonzero = false;
        }
        i += 1;
    }
    match f.res {
        Err(QDLDLError::ZeroPivot) => assert!(!all_nonzero, "zero_pivot_reported_only_if_a_leading_minor_vanishes"),
        Err(_) => assert!(false, "no_other_error"),
        Ok(npos) => {
            assert!(all_nonzero, "ok_only_if_all_pivots_nonzero");
            let l = dense_L(&f);
            // structure = reference symbolic factorisation
            let s = fill_pattern::<N>(&colptr, &rowval);
            let mut i = 0;
            while i < N {
                let mut j = 0;
                while j < i {
                    let mut present = false;
                    let mut k = f.Lp[j];
                    while k < f.Lp[j + 1] {
                        if f.Li[k] == i {
                            present = true;
                        }
                        k += 1;
                    }
                    assert!(present == s[i][j], "L_pattern_is_the_fill_pattern");
                    j += 1;
                }
                i += 1;
            }
            // L D L' == A, entry by entry
            let mut i = 0;
            while i < N {
                let mut j = 0;
                while j <= i {
                    let mut acc = F::zero();
                    let mut k = 0;
                    while k <= j {
                        acc = acc + l[i][k] * f.D[k] * l[j][k];
                        k += 1;
                    }
                    assert!(acc == a[i][j], "LDLt_equals_A");
                    j += 1;
                }
                assert!(f.D[i] * f.Dinv[i] == F::one(), "Dinv_is_inverse_of_D");
                // pivots are ratios of leading minors
                if i == 0 {
                    assert!(f.D[0] == minors[0], "first_pivot");
                } else {
                    assert!(f.D[i] * minors[i - 1] == minors[i], "pivot_is_ratio_of_leading_minors");
                }
                i += 1;
            }
            // positive_inertia counts D[k] > 0; in GF(p) every nonzero representative is > 0
            assert!(npos == N, "positive_count_counts_nonzero_representatives");
        }
    }
    kani::cover!(f.res.is_ok(), "factorisation succeeds");
    kani::cover!(f.res.is_err(), "zero pivot reached");
}

macro_rules! ldl3 {
    ($($name:ident $off:expr, $diag:expr;)*) => {$(
        #[kani::proof]
        #[kani::unwind(11)]
        pub fn $name() { ldl_pattern::<3>($off, $diag); }
    )*};
}
ldl3! {
    c12_ldl3_p0 0, 7;
    c12_ldl3_p1 1, 7;
    c12_ldl3_p2 2, 7;
    c12_ldl3_p3 3, 7;
    c12_ldl3_p4 4, 7;
    c12_ldl3_p5 5, 7;
    c12_ldl3_p6 6, 7;
    c12_ldl3_p7 7, 7;
    c12_ldl3_p7_nodiag1 7, 5;
    c12_ldl3_p5_nodiag2 5, 3;
}

macro_rules! ldl4 {
    ($($name:ident $off:expr;)*) => {$(
        #[kani::proof]
        #[kani::unwind(14)]
        pub fn $name() { ldl_pattern::<4>($off, 15); }
    )*};
}
ldl4! {
    c12_ldl4_p63 63;
    c12_ldl4_p11 11;
    c12_ldl4_p37 37;
    c12_ldl4_p56 56;
    c12_ldl4_p25 25;
    c12_ldl4_p42 42;
}

// ------------------------------------------------------------------------------------------
// refactor on a used workspace == fresh factorisation
// ------------------------------------------------------------------------------------------
fn refactor_pattern<const N: usize>(off: u32) {
    refactor_pattern_diag::<N>(off, (1 << N) - 1);
}

fn refactor_pattern_diag<const N: usize>(off: u32, diag: u32) {
    let (colptr, rowval) = triu_pattern::<N>(off, diag);
    let nnz = rowval.len();
    let v1 = any_values(nnz);
    let v2 = any_values(nnz);
    // (a) factor v1 (may succeed or stop at a zero pivot), then refactor v2 on the same workspace
    let mut f = factor::<N>(&colptr, &rowval, &v1);
    let first_failed = f.res.is_err();
    refactor_in_place(&mut f, &colptr, &rowval, &v2);
    // (b) fresh factorisation of v2
    let g = factor::<N>(&colptr, &rowval, &v2);
    assert!(f.res.is_ok() == g.res.is_ok(), "refactor_verdict_equals_fresh_verdict");
    if g.res.is_ok() {
        let mut k = 0;
        while k <= N {
            assert!(f.Lp[k] == g.Lp[k], "refactor_structure_equals_fresh");
            k += 1;
        }
        let mut k = 0;
        while k < g.Li.len() {
            assert!(f.Li[k] == g.Li[k], "refactor_structure_equals_fresh");
            k += 1;
        }
        let mut k = 0;
        while k < g.Lx.len() {
            assert!(f.Lx[k] == g.Lx[k], "refactor_L_equals_fresh_L");
            k += 1;
        }
        let mut i = 0;
        while i < N {
            assert!(f.D[i] == g.D[i] && f.Dinv[i] == g.Dinv[i], "refactor_D_equals_fresh_D");
            i += 1;
        }
    }
    kani::cover!(first_failed && g.res.is_ok(), "first factorisation hit a zero pivot, refactor succeeds");
    kani::cover!(!first_failed && g.res.is_ok(), "both succeed");
}

#[kani::proof]
#[kani::unwind(11)]
pub fn c12_refactor3_dense() {
    refactor_pattern::<3>(7);
}
#[kani::proof]
#[kani::unwind(11)]
pub fn c12_refactor3_arrow() {
    refactor_pattern::<3>(6);
}
/// stored diagonal entries (1,1) / (2,2) missing: the pivot accumulator must start from zero again
#[kani::proof]
#[kani::unwind(11)]
pub fn c12_refactor3_nodiag1() {
    refactor_pattern_diag::<3>(7, 5);
}
#[kani::proof]
#[kani::unwind(11)]
pub fn c12_refactor3_nodiag2() {
    refactor_pattern_diag::<3>(5, 3);
}

// ------------------------------------------------------------------------------------------
// triangular solves (unchecked indexing)
// ------------------------------------------------------------------------------------------
/// strictly-lower pattern of L from a bit mask over (i>j) in column-major order
fn lower_pattern<const N: usize>(mask: u32) -> (Vec<usize>, Vec<usize>) {
    let mut lp = vec![0usize; N + 1];
    let mut li = Vec::new();
    let mut bit = 0;
    let mut j = 0;
    while j < N {
        let mut i = j + 1;
        while i < N {
            if (mask >> bit) & 1 == 1 {
                li.push(i);
            }
            bit += 1;
            i += 1;
        }
        lp[j + 1] = li.len();
        j += 1;
    }
    (lp, li)
}

fn solve_pattern<const N: usize>(mask: u32) {
    let (lp, li) = lower_pattern::<N>(mask);
    let lx = any_values(li.len());
    let mut dinv = vec![F::zero(); N];
    let mut i = 0;
    while i < N {
        dinv[i] = F::any_nonzero();
        i += 1;
    }
    let b0 = any_values(N);
    let mut x = b0.clone();
    q::solve(&lp, &li, &lx, &dinv, &mut x);
    // dense L (unit diagonal)
    let mut l = [[F::zero(); N]; N];
    let mut j = 0;
    while j < N {
        l[j][j] = F::one();
        let mut k = lp[j];
        while k < lp[j + 1] {
            l[li[k]][j] = lx[k];
            k += 1;
        }
        j += 1;
    }
    // w = L' x ;  v = D w  (D = 1/Dinv: v*dinv = w) ;  L v = b
    let mut w = [F::zero(); N];
    let mut i = 0;
    while i < N {
        let mut acc = F::zero();
        let mut k = i;
        while k < N {
            acc = acc + l[k][i] * x[k];
            k += 1;
        }
        w[i] = acc;
        i += 1;
    }
    let mut v = [F::zero(); N];
    let mut i = 0;
    while i < N {
        v[i] = w[i] * Float::recip(dinv[i]);
        i += 1;
    }
    let mut i = 0;
    while i < N {
        let mut acc = F::zero();
        let mut k = 0;
        while k <= i {
            acc = acc + l[i][k] * v[k];
            k += 1;
        }
        assert!(acc == b0[i], "L_D_Lt_x_equals_b");
        i += 1;
    }
    // safe and unsafe substitution agree
    let mut y1 = b0.clone();
    let mut y2 = b0.clone();
    q::lsolve_safe(&lp, &li, &lx, &mut y1);
    q::ltsolve_safe(&lp, &li, &lx, &mut y1);
    q::lsolve_safe(&lp, &li, &lx, &mut y2);
    q::ltsolve_unsafe(&lp, &li, &lx, &mut y2);
    let mut i = 0;
    while i < N {
        assert!(y1[i] == y2[i], "safe_and_unchecked_substitution_agree");
        i += 1;
    }
    kani::cover!(x[0].0 == 3 && b0[N - 1].0 == 5, "nontrivial system");
}

#[kani::proof]
#[kani::unwind(8)]
pub fn c12_solve3_dense() {
    solve_pattern::<3>(7);
}
#[kani::proof]
#[kani::unwind(8)]
pub fn c12_solve3_sparse() {
    solve_pattern::<3>(5);
}
#[kani::proof]
#[kani::unwind(10)]
pub fn c12_solve4_dense() {
    solve_pattern::<4>(63);
}
#[kani::proof]
#[kani::unwind(10)]
pub fn c12_solve4_sparse() {
    solve_pattern::<4>(0b101001);
}

// ------------------------------------------------------------------------------------------
// regularisation / inertia logic, f64, every bit pattern (diagonal matrices: no products)
// ------------------------------------------------------------------------------------------
fn regularize_signs(signs: [i8; 3]) {
    const N: usize = 3;
    let colptr = [0usize, 1, 2, 3];
    let rowval = [0usize, 1, 2];
    let ax: [f64; N] = kani::any();
    let eps: f64 = kani::any();
    let delta: f64 = kani::any();
    let enable: bool = kani::any();
    let mut iwork = vec![0usize; 3 * N];
    let mut Lnz = vec![0usize; N];
    let mut etree = vec![0usize; N];
    let _ = q::etree(N, &colptr, &rowval, &mut iwork, &mut Lnz, &mut etree);
    assert!(Lnz[0] == 0 && Lnz[1] == 0 && Lnz[2] == 0);
    let mut Lp = vec![0usize; N + 1];
    let mut Li: Vec<usize> = vec![];
    let mut Lx: Vec<f64> = vec![];
    let mut D = vec![0f64; N];
    let mut Dinv = vec![0f64; N];
    let mut bwork = vec![false; N];
    let mut fwork = vec![0f64; N];
    let mut count = 7usize;
    let r = q::factor_inner(
        N, &colptr, &rowval, &ax, &mut Lp, &mut Li, &mut Lx, &mut D, &mut Dinv, &Lnz, &etree, &mut bwork, &mut iwork,
        &mut fwork, false, &signs, enable, eps, delta, &mut count,
    );
    // reference
    let mut expect_count = 0;
    let mut expect_pos = 0;
    let mut zero_at = N;
    let mut k = 0;
    while k < N {
        let s = signs[k] as f64;
        let mut d = ax[k];
        if enable && d * s < eps {
            d = delta * s;
            expect_count += 1;
        }
        if d == 0.0 {
            zero_at = k;
            break;
        }
        if d > 0.0 {
            expect_pos += 1;
        }
        assert!(r.is_err() || same_bits(D[k], d), "pivot_perturbed_iff_signed_value_below_threshold");
        k += 1;
    }
    match r {
        Ok(npos) => {
            assert!(zero_at == N, "ok_only_without_zero_pivot");
            assert!(npos == expect_pos, "positive_inertia_counts_positive_pivots");
            assert!(count == expect_count, "regularize_count_counts_perturbed_pivots");
        }
        Err(QDLDLError::ZeroPivot) => assert!(zero_at < N, "zero_pivot_error_iff_some_pivot_is_zero"),
        Err(_) => assert!(false),
    }
    kani::cover!(r.is_ok() && count == 2, "two pivots perturbed");
    kani::cover!(r.is_ok() && count == 0 && enable, "no pivot perturbed with regularisation on");
    kani::cover!(r.is_err(), "zero pivot");
}

#[kani::proof]
#[kani::unwind(11)]
pub fn c12_regularize_signs_ppm() {
    regularize_signs([1, 1, -1]);
}
#[kani::proof]
#[kani::unwind(11)]
pub fn c12_regularize_signs_mpm() {
    regularize_signs([-1, 1, -1]);
}

// ------------------------------------------------------------------------------------------
// the reported positive inertia is the number of positive pivots AFTER EVERY (re)factorisation - through the
// public QDLDLFactorisation API (user-supplied identity ordering, so no AMD), 2x2 dense upper triangle,
// small-integer values, logical or numeric construction, update_values + refactor
// ------------------------------------------------------------------------------------------
fn inertia_after_refactor(logical: bool) {
    use clarabel::qdldl::{QDLDLFactorisation, QDLDLSettings};
    // diagonal 2x2 matrix (no fill-in: the factorisation itself is decided in c12_ldl*), concrete first values;
    // the public constructor with a symbolic pattern or symbolic first values exhausts memory (heap-held
    // elimination tree, DESIGN.md 6.2.9)
    let A = CscMatrix::<f64> { m: 2, n: 2, colptr: vec![0, 1, 2], rowval: vec![0, 1], nzval: vec![1.0, 1.0] };
    let opts = QDLDLSettings::<f64> {
        amd_dense_scale: 1.0,
        perm: Some(vec![0, 1]),
        logical,
        Dsigns: None,
        regularize_enable: false,
        regularize_eps: 1e-12,
        regularize_delta: 1e-7,
    };
    let count_pos = |d: &[f64]| (d[0] > 0.0) as usize + (d[1] > 0.0) as usize;
    let f = QDLDLFactorisation::<f64>::new(&A, Some(opts));
    assert!(f.is_ok());
    let mut f = f.unwrap();
    if !logical {
        assert!(f.positive_inertia() == 2, "inertia_after_new_counts_positive_pivots");
    }
    let newvals = [small_f64(4), small_f64(4)];
    f.update_values(&[0, 1], &newvals);
    let r = f.refactor();
    if r.is_ok() {
        assert!(f.positive_inertia() == count_pos(&f.D), "inertia_after_refactor_counts_positive_pivots");
        kani::cover!(count_pos(&f.D) == 1, "one positive, one negative pivot after the refactor");
        kani::cover!(count_pos(&f.D) == 2, "two positive pivots after the refactor");
    }
    core::mem::forget(f);
}

#[kani::proof]
#[kani::unwind(8)]
pub fn c12_inertia_after_refactor() {
    inertia_after_refactor(true);
}

#[kani::proof]
#[kani::unwind(8)]
pub fn c12_inertia_after_refactor_numeric() {
    inertia_after_refactor(false);
}
