//! Self test of the driver: one harness that must fail (and replay natively), one that must pass.
use clarabel::qdldl::verif_hooks as q;

#[kani::proof]
#[kani::unwind(4)]
pub fn st_must_fail() {
    let p: [usize; 2] = kani::any();
    kani::cover!(p[0] == 0);
    assert!(q::invperm(&p).is_ok(), "selftest_every_vector_is_accepted");
}

#[kani::proof]
#[kani::unwind(4)]
pub fn st_must_pass() {
    let p: [usize; 2] = [0, 1];
    kani::cover!(p[0] == 0);
    assert!(q::invperm(&p).is_ok(), "selftest_identity_accepted");
}
