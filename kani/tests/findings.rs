//! Native demonstrations of the genuine defects found (see /verif/known_findings.json).
//! Each test passes on the repaired tree and fails on the tree before the `fix:` commit.
use clarabel::algebra::CscMatrix;
use clarabel::qdldl::*;

/// F1 (C12): a repeated entry in the permutation must be rejected through the public API.
#[test]
fn f1_invperm_repeated_entry_rejected() {
    let a = CscMatrix::new(2, 2, vec![0, 1, 2], vec![0, 1], vec![1.0, 2.0]);
    for bad in [vec![1usize, 1], vec![0, 0]] {
        let opts = QDLDLSettingsBuilder::<f64>::default().perm(bad.clone()).build().unwrap();
        let r = QDLDLFactorisation::new(&a, Some(opts));
        assert!(r.is_err(), "perm {:?} accepted", bad);
    }
    let a3 = CscMatrix::new(3, 3, vec![0, 1, 2, 3], vec![0, 1, 2], vec![1.0, 2.0, 3.0]);
    let opts = QDLDLSettingsBuilder::<f64>::default().perm(vec![2, 2, 0]).build().unwrap();
    assert!(QDLDLFactorisation::new(&a3, Some(opts)).is_err(), "perm [2,2,0] accepted");
}

/// F2 (C16): a column pointer that does not start at zero is not a canonical encoding.
#[test]
fn f2_check_format_rejects_colptr_not_starting_at_zero() {
    let a = CscMatrix::<f64> { m: 3, n: 2, colptr: vec![1, 2, 2], rowval: vec![1, 2], nzval: vec![1.0, 1.0] };
    assert!(a.check_format().is_err(), "colptr = [1,2,2] accepted as canonical");
}
