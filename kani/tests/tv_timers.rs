//! Validation of the CLOCK MODEL used by the C04 / C07 loop harnesses (kani/src/c04.rs: stub_start / stub_stop /
//! stub_suspend / stub_resume and the ghost variables NOW / START / FLUSHED / DEPTH) against the real
//! `clarabel::timers::Timers` (HashMap based, out of Kani's reach):
//!   * `total_time()` reports the time FLUSHED from root timers only;
//!   * a running root timer is flushed by `suspend()` (every running timer, not just the innermost one) and
//!     by its own `stop_current()`; `resume()` restarts it; starting / stopping a nested timer flushes nothing.
//! The real object is driven through the call pattern of `Solver::solve` (root "solve" timer, nested timers,
//! `notimeit!` = suspend ... resume) with real sleeps; after every call the real `total_time()` must agree
//! with the model's prediction computed from the measured instants.  Run natively by bin/check before the
//! harnesses that rely on the model; a failure means their results are not about the real code (exit 2).
use clarabel::timers::Timers;
use std::time::{Duration, Instant};

#[derive(Default)]
struct Model {
    start: Option<Instant>,
    flushed: Duration,
    depth: usize,
}
impl Model {
    fn start(&mut self, now: Instant) {
        if self.depth == 0 {
            self.start = Some(now);
        }
        self.depth += 1;
    }
    fn stop(&mut self, now: Instant) {
        self.depth -= 1;
        if self.depth == 0 {
            self.flushed += now - self.start.unwrap();
        }
    }
    fn suspend(&mut self, now: Instant) {
        if self.depth > 0 {
            self.flushed += now - self.start.unwrap();
        }
    }
    fn resume(&mut self, now: Instant) {
        if self.depth > 0 {
            self.start = Some(now);
        }
    }
}

/// `slack`: total time spent INSIDE the timer calls so far (the real object reads the clock somewhere inside each
/// call, the model at its start), so that a loaded machine cannot make the comparison fail spuriously
fn agree(t: &Timers, m: &Model, slack: Duration, what: &str) {
    let real = t.total_time();
    let diff = if real > m.flushed { real - m.flushed } else { m.flushed - real };
    assert!(diff < Duration::from_millis(3) + slack, "{what}: real total_time {real:?} vs model {:?} (slack {slack:?})", m.flushed);
}

const NAP: Duration = Duration::from_millis(15);

#[test]
fn clock_model_matches_real_timers() {
    #[derive(Clone, Copy)]
    enum Op {
        Start(&'static str),
        Stop,
        Suspend,
        Resume,
    }
    use Op::*;
    // the call pattern of Solver::solve: root timer, nested timers, notimeit! inside and outside nested timers
    let seqs: [&[Op]; 3] = [
        &[Start("solve"), Start("default start"), Stop, Start("IP iteration"), Suspend, Resume, Start("kkt update"), Stop, Suspend, Resume, Stop, Stop],
        &[Start("solve"), Suspend, Resume, Suspend, Resume, Stop, Start("solve"), Suspend, Resume, Stop],
        &[Start("setup"), Stop, Start("solve"), Start("a"), Start("b"), Suspend, Resume, Stop, Stop, Suspend, Resume, Stop],
    ];
    for seq in seqs {
        let mut t = Timers::default();
        let mut m = Model::default();
        let mut slack = Duration::ZERO;
        for (k, op) in seq.iter().enumerate() {
            std::thread::sleep(NAP);
            let now = Instant::now();
            match *op {
                Start(key) => {
                    t.start_as_current(key);
                    m.start(now);
                }
                Stop => {
                    t.stop_current();
                    m.stop(now);
                }
                Suspend => {
                    t.suspend();
                    m.suspend(now);
                }
                Resume => {
                    t.resume();
                    m.resume(now);
                }
            }
            slack += now.elapsed();
            agree(&t, &m, slack, &format!("after call {k}"));
        }
    }
}
