//! Translation validation of the hook constructor `new_with_engine` (KKT solver around a caller-supplied
//! LDL engine): with the real QDLDL engine it builds the same KKT matrix, maps and sign vector as the
//! real `DirectLDLKKTSolver::new`.  Run natively by bin/check.
use clarabel::algebra::*;
use clarabel::solver::SupportedConeT::*;
use clarabel::solver::*;
use clarabel::verif_hooks::cones::verif_hooks_cc as cc;
use clarabel::verif_hooks::cones::*;
use clarabel::verif_hooks::core::direct::ldlsolvers::qdldl::QDLDLDirectLDLSolver;
use clarabel::verif_hooks::core::direct::verif_hooks_ldlkkt as lk;
use clarabel::verif_hooks::core::direct::DirectLDLKKTSolver;

#[test]
fn hook_kkt_constructor_agrees_with_real_constructor() {
    let P = CscMatrix::from(&[[2.0, 1.0], [0.0, 3.0]]);
    let layouts: Vec<(Vec<SupportedConeT<f64>>, usize)> = vec![
        (vec![NonnegativeConeT(2)], 2),
        (vec![ZeroConeT(1), SecondOrderConeT(3)], 4),
        (vec![SecondOrderConeT(5), NonnegativeConeT(1)], 6),
        (vec![ExponentialConeT(), SecondOrderConeT(6)], 9),
    ];
    for (cones_t, m) in layouts {
        let rows: Vec<[f64; 2]> = (0..m).map(|i| [1.0 + i as f64, if i % 2 == 0 { 0.0 } else { -2.0 }]).collect();
        let A = CscMatrix::from(rows.iter());
        let mut settings = DefaultSettingsBuilder::<f64>::default().build().unwrap();
        settings.direct_solve_method = "qdldl".to_string();
        let cones = CompositeCone::<f64>::new(&cones_t);
        let real = DirectLDLKKTSolver::<f64>::new(&P, &A, &cones, m, 2, &settings);
        let cones2 = cc::new_without_type_counts::<f64>(&cones_t);
        let st2 = settings.clone();
        let hook = lk::new_with_engine(&P, &A, &cones2, m, 2, true, move |K, d| Box::new(QDLDLDirectLDLSolver::<f64>::new(K, d, &st2, None)));
        assert_eq!(lk::kkt(&real), lk::kkt(&hook));
        assert_eq!(lk::dsigns(&real), lk::dsigns(&hook));
        assert_eq!(lk::map_P(&real), lk::map_P(&hook));
        assert_eq!(lk::map_A(&real), lk::map_A(&hook));
        assert_eq!(lk::map_diag_full(&real), lk::map_diag_full(&hook));
        assert_eq!(lk::map_Hsblocks(&real), lk::map_Hsblocks(&hook));
    }
}
