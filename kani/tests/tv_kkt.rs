//! Translation validation of the hook constructor `new_with_engine` (KKT solver around a caller-supplied
//! LDL engine): with the real QDLDL engine it builds the same KKT matrix, maps and sign vector as the
//! real `DirectLDLKKTSolver::new`.  Run natively by bin/check.
use clarabel::algebra::*;
use clarabel::solver::SupportedConeT::*;
use clarabel::solver::*;
use clarabel::verif_hooks::cones::verif_hooks_cc as cc;
use clarabel::verif_hooks::cones::*;
use clarabel::verif_hooks::core::direct::ldlsolvers::qdldl::QDLDLDirectLDLSolver;
use clarabel::verif_hooks::core::direct::verif_hooks_ldlkkt as lk;
use clarabel::verif_hooks::core::direct::DirectLDLKKTSolver;

#[test]
fn hook_kkt_constructor_agrees_with_real_constructor() {
    let P = CscMatrix::from(&[[2.0, 1.0], [0.0, 3.0]]);
    let layouts: Vec<(Vec<SupportedConeT<f64>>, usize)> = vec![
        (vec![NonnegativeConeT(2)], 2),
        (vec![ZeroConeT(1), SecondOrderConeT(3)], 4),
        (vec![SecondOrderConeT(5), NonnegativeConeT(1)], 6),
        (vec![ExponentialConeT(), SecondOrderConeT(6)], 9),
    ];
    for (cones_t, m) in layouts {
        let rows: Vec<[f64; 2]> = (0..m).map(|i| [1.0 + i as f64, if i % 2 == 0 { 0.0 } else { -2.0 }]).collect();
        let A = CscMatrix::from(rows.iter());
        let mut settings = DefaultSettingsBuilder::<f64>::default().build().unwrap();
        settings.direct_solve_method = "qdldl".to_string();
        let cones = CompositeCone::<f64>::new(&cones_t);
        let real = DirectLDLKKTSolver::<f64>::new(&P, &A, &cones, m, 2, &settings);
        let cones2 = cc::new_without_type_counts::<f64>(&cones_t);
        let st2 = settings.clone();
        let hook = lk::new_with_engine(&P, &A, &cones2, m, 2, true, move |K, d| Box::new(QDLDLDirectLDLSolver::<f64>::new(K, d, &st2, None)));
        assert_eq!(lk::kkt(&real), lk::kkt(&hook));
        assert_eq!(lk::dsigns(&real), lk::dsigns(&hook));
        assert_eq!(lk::map_P(&real), lk::map_P(&hook));
        assert_eq!(lk::map_A(&real), lk::map_A(&hook));
        assert_eq!(lk::map_diag_full(&real), lk::map_diag_full(&hook));
        assert_eq!(lk::map_Hsblocks(&real), lk::map_Hsblocks(&hook));
    }
}

/// Translation validation of `assemble_kkt_matrix_soc_store` (sparse-expansion map list held in a caller
/// store): same K and same index maps as the real `assemble_kkt_matrix` for layouts whose sparse cones
/// are second-order cones, both triangles, several P patterns.
#[test]
fn hook_assembly_with_map_store_agrees_with_real_assembly() {
    use clarabel::verif_hooks::core::direct::verif_hooks_kkt as kk;
    fn check<const S: usize>(cones_t: &[SupportedConeT<f64>], m: usize, sdims: [usize; S]) {
        let ps = [
            CscMatrix::from(&[[2.0, 1.0], [0.0, 3.0]]),
            CscMatrix::from(&[[0.0, 1.0], [0.0, 0.0]]),
            CscMatrix::<f64>::spalloc((2, 2), 0),
            CscMatrix::from(&[[4.0, 0.0], [0.0, 0.0]]),
        ];
        for P in ps.iter() {
            for dense_a in [true, false] {
                let rows: Vec<[f64; 2]> =
                    (0..m).map(|i| [if dense_a || i % 3 == 0 { 1.0 + i as f64 } else { 0.0 }, if i % 2 == 0 && !dense_a { 0.0 } else { -2.0 }]).collect();
                let A = CscMatrix::from(rows.iter());
                let cones = CompositeCone::<f64>::new(cones_t);
                for triu in [true, false] {
                    let (k_real, m_real) = kk::assemble_kkt_matrix(P, &A, &cones, triu);
                    let mut store = kk::VSocMapStore::<S>::new(sdims);
                    let (k_hook, m_hook) = kk::assemble_kkt_matrix_soc_store(P, &A, &cones, triu, &mut store);
                    assert_eq!(k_real, k_hook);
                    assert_eq!(m_real.P, m_hook.P());
                    assert_eq!(m_real.A, m_hook.A());
                    assert_eq!(m_real.Hsblocks, m_hook.Hsblocks());
                    assert_eq!(m_real.diagP, m_hook.diagP());
                    assert_eq!(m_real.diag_full, m_hook.diag_full());
                    assert_eq!(m_real.sparse_maps.len(), m_hook.n_sparse());
                    for (i, sm) in m_real.sparse_maps.iter().enumerate() {
                        match sm {
                            kk::VSparseMap::SOC { u, v, D } => {
                                let (hu, hv, hd) = m_hook.soc(i);
                                assert_eq!((&u[..], &v[..], *D), (hu, hv, hd));
                            }
                            _ => panic!("layout with a non-SOC sparse cone"),
                        }
                    }
                }
            }
        }
    }
    check::<0>(&[NonnegativeConeT(2), SecondOrderConeT(3)], 5, []);
    check::<1>(&[SecondOrderConeT(5)], 5, [5]);
    check::<1>(&[SecondOrderConeT(2), SecondOrderConeT(5)], 7, [5]);
    check::<1>(&[NonnegativeConeT(1), SecondOrderConeT(5), ZeroConeT(1)], 7, [5]);
    check::<1>(&[ExponentialConeT(), SecondOrderConeT(5)], 8, [5]);
    check::<2>(&[SecondOrderConeT(6), PowerConeT(0.3), SecondOrderConeT(5), NonnegativeConeT(2)], 16, [6, 5]);
}
