//! Native demonstration of finding F3 (needs the sdp feature: `cargo test --features sdp --test findings_sdp`).
#![cfg(feature = "sdp")]
use clarabel::verif_hooks::chordal::VDsu;

/// F3 (C17): after the 7 unions below all 8 elements are connected; `root` returned the grandparent
/// instead of the root for an element at depth 3, so in_same_set(0, 7) was false.
#[test]
fn f3_union_find_root_reaches_the_root() {
    let mut d = VDsu::new(8);
    for (a, b) in [(0, 1), (2, 3), (1, 3), (4, 5), (6, 7), (5, 7), (3, 7)] {
        d.union(a, b);
    }
    for i in 0..8 {
        for j in 0..8 {
            assert!(d.in_same_set(i, j), "elements {} and {} reported as not connected", i, j);
        }
    }
}
