//! Translation validation of the hook constructors `new_without_type_counts` / `from_cone_vec` (used by the C10, C11,
//! C15, C20 harnesses because HashMap insertion is not executable by the model checker):
//! on a few hundred cone lists it agrees with the real `CompositeCone::new` on every field the
//! solver reads (everything except the printing-only `type_counts` map).  Run natively by bin/check.
use clarabel::solver::SupportedConeT::{self, *};
use clarabel::verif_hooks::cones::verif_hooks_cc as cc;
use clarabel::verif_hooks::cones::*;

fn kinds(k: u32, d: usize) -> SupportedConeT<f64> {
    match k % 6 {
        0 => ZeroConeT(d),
        1 => NonnegativeConeT(d),
        2 => SecondOrderConeT(d.max(2) + 3 * (k as usize % 2)), // dims 2..: both sides of the sparse threshold (4)
        3 => ExponentialConeT(),
        4 => PowerConeT(0.3),
        _ => GenPowerConeT(vec![0.4, 0.6], 1 + d % 2),
    }
}

#[test]
fn hook_constructor_agrees_with_real_constructor() {
    let mut n = 0;
    for code in 0u32..6 * 6 * 6 {
        for d in 0..3usize {
            let list = vec![kinds(code % 6, d + 1), kinds((code / 6) % 6, d), kinds((code / 36) % 6, d + 2)];
            for len in 0..=3 {
                let l = &list[..len];
                let a = CompositeCone::<f64>::new(l);
                let b = cc::new_without_type_counts::<f64>(l);
                let c = cc::from_cone_vec::<f64>(l.iter().map(make_cone).collect());
                assert_eq!(a.numel(), c.numel());
                assert_eq!(a.degree(), c.degree());
                assert_eq!(a.is_symmetric(), c.is_symmetric());
                assert_eq!(a.len(), c.len());
                assert_eq!(cc::rng_cones(&a), cc::rng_cones(&c));
                assert_eq!(cc::rng_blocks(&a), cc::rng_blocks(&c));
                assert_eq!(a.numel(), b.numel());
                assert_eq!(a.degree(), b.degree());
                assert_eq!(a.is_symmetric(), b.is_symmetric());
                assert_eq!(a.len(), b.len());
                assert_eq!(a.allows_primal_dual_scaling(), b.allows_primal_dual_scaling());
                assert_eq!(cc::rng_cones(&a), cc::rng_cones(&b));
                assert_eq!(cc::rng_blocks(&a), cc::rng_blocks(&b));
                for (x, y) in a.iter().zip(b.iter()) {
                    assert_eq!(x.numel(), y.numel());
                    assert_eq!(x.degree(), y.degree());
                    assert_eq!(x.is_sparse_expandable(), y.is_sparse_expandable());
                    assert_eq!(x.Hs_is_diagonal(), y.Hs_is_diagonal());
                    assert_eq!(x.is_symmetric(), y.is_symmetric());
                }
                n += 1;
            }
        }
    }
    assert!(n > 500);
}
