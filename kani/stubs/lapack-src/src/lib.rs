//! empty
