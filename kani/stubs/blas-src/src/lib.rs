//! empty
