"""
Registry of Kani harnesses per property (single source for the driver and the evidence files).

Fields per harness:
  name     fully qualified harness path inside the verif-kani crate
  tier     "quick" (run in both tiers) | "thorough" (thorough tier only)
  rot      True: rotating shape variant; quick runs ~1/3 of them, selected by VERIF_SEED
  timeout  seconds (wall) for this harness; mem_gb: address-space cap
  nofloat  True: run without CBMC's NaN/float-overflow instrumentation (harness quantifies over all f64)
  stubs    True: uses #[kani::stub] (-Z stubbing)
  unit / inst / bounds / oracle   free text copied into the evidence file
"""

PROPS = {}

# ---------------------------------------------------------------------------------------------
# self test of the driver (not a property; not in MANIFEST): a harness that must FAIL and replay
# ---------------------------------------------------------------------------------------------
PROPS["ST"] = {
    "feature": "selftest",
    "harnesses": [
        dict(name="selftest::st_must_fail", unit="qdldl::_invperm", bounds="n=2",
             oracle="(deliberately wrong) every [usize;2] is accepted"),
        dict(name="selftest::st_must_pass", unit="qdldl::_invperm", bounds="n=2", oracle="identity accepted"),
    ],
}

PROPS["C12"] = {
    "feature": "c12",
    "bounds_note": "n<=4 (n<=5 for permutation utilities); sparsity patterns enumerated, values/permutations/signs symbolic",
    "outside": "backward stability / floating-point accuracy; AMD ordering; matrices with n>4",
    "assumptions": [],
    "harnesses": [
        dict(name="c12::c12_invperm_n4", unit="qdldl::_invperm", inst="usize", bounds="all [usize;4]",
             oracle="Ok <=> permutation of 0..n; result is the inverse", timeout=300),
    ],
}
