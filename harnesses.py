"""
Registry of Kani harnesses per property (single source for the driver and the evidence files).

Fields per harness:
  name     fully qualified harness path inside the verif-kani crate
  tier     "quick" (run in both tiers) | "thorough" (thorough tier only)
  rot      True: rotating shape variant; quick runs ~1/3 of them, selected by VERIF_SEED
  timeout  seconds (wall) for this harness; mem_gb: address-space cap
  nofloat  True: run without CBMC's NaN/float-overflow instrumentation (harness quantifies over all f64)
  stubs    True: uses #[kani::stub] (-Z stubbing)
  unit / inst / bounds / oracle   free text copied into the evidence file
"""

PROPS = {}

# ---------------------------------------------------------------------------------------------
# self test of the driver (not a property; not in MANIFEST): a harness that must FAIL and replay
# ---------------------------------------------------------------------------------------------
PROPS["ST"] = {
    "feature": "selftest",
    "harnesses": [
        dict(name="selftest::st_must_fail", unit="qdldl::_invperm", bounds="n=2",
             oracle="(deliberately wrong) every [usize;2] is accepted"),
        dict(name="selftest::st_must_pass", unit="qdldl::_invperm", bounds="n=2", oracle="identity accepted"),
    ],
}

PROPS["C12"] = {
    "feature": "c12",
    "bounds_note": "n<=4 (n<=5 for permutation utilities); sparsity patterns enumerated, values/permutations/signs symbolic",
    "outside": "backward stability / floating-point accuracy; AMD ordering; matrices with n>4",
    "assumptions": [],
    "harnesses": [
        dict(name="c12::c12_invperm_n4", unit="qdldl::_invperm", inst="usize", bounds="all [usize;4]",
             oracle="Ok <=> permutation of 0..n; result is the inverse", timeout=300),
    ],
}

def _c09():
    hs = []
    lay = {0: "[NN1,Zero1,NN2]", 1: "[Exp,NN1]", 2: "[NN4]", 3: "[Zero2,NN2]", 4: "[NN1,Pow]", 5: "[NN2,SOC2]",
           6: "[NN1,NN0,SOC1,NN2]", 7: "[SOC3,Zero1]"}
    bnd = {0: "1e20", 1: "100", 2: "1e-3", 3: "1e300", 4: "1e20", 5: "100", 6: "1e20", 7: "1e20"}
    pat = {0: "mixed", 1: "dense", 2: "empty first col", 3: "empty last col", 4: "dense", 5: "mixed", 6: "dense"}
    core = {0, 1, 6}
    for l in range(8):
        q = dict(tier="quick") if l in core else dict(tier="quick", rot=True)
        hs.append(dict(name="c09::c09_map_l%d" % l, nofloat=True, timeout=600, **q,
                       unit="Presolver::new -> make_reduction_map; set_infinity/get_infinity", inst="f64 (all bit patterns for b)",
                       bounds="cones=%s, all f64 b[4] incl NaN/inf, bound=%s (concrete)" % (lay[l], bnd[l]),
                       oracle="dropped <=> (row in NN cone and b>=bound) [band of 16 eps below bound undetermined]; mreduced; map None iff nothing dropped"))
        if l == 7:
            continue
        hs.append(dict(name="c09::c09_reduce_l%d" % l, timeout=1200, mem_gb=20, **q,
                       unit="Presolver::presolve (reduce_A_b, reduce_cones), CscMatrix::select_rows, VectorMath::select", inst="f64 small ints",
                       bounds="cones=%s, A 4x2 pattern '%s', all 16 drop masks (concrete loop), symbolic values" % (lay[l], pat[l]),
                       oracle="A,b rows deleted in order; A canonical; nn cones shrink, emptied cones vanish, others unchanged; dims sum to mreduced"))
        hs.append(dict(name="c09::c09_reverse_l%d" % l, nofloat=True, timeout=600, **q,
                       unit="Presolver::reverse_presolve", inst="f64 all bit patterns", bounds="cones=%s, symbolic drop mask" % lay[l],
                       oracle="lengths = user's; dropped rows z=0, s=bound at construction; kept rows in order; x copied"))
    for nm, b in (("c09_reduce_l0_dense", "cones=[NN1,Zero1,NN2], dense A"), ("c09_reduce_l6_mixed", "cones=[NN1,NN0,SOC1,NN2], mixed A")):
        hs.append(dict(name="c09::" + nm, tier="thorough", timeout=1800, mem_gb=20, unit="Presolver::presolve", inst="f64 small ints",
                       bounds=b + ", 16 masks", oracle="as c09_reduce"))
    hs.append(dict(name="c09::c09_bound_capture", nofloat=True, timeout=600, unit="Presolver::new, set_infinity", inst="f64 all bit patterns",
                   bounds="symbolic bound and later value", oracle="stored bound == bound in force at construction"))
    hs.append(dict(name="c09::c09_infbound", nofloat=True, unit="set_infinity/get_infinity/default_infinity", inst="f64 all bit patterns", bounds="-",
                   oracle="round trip; default is 1e20", timeout=300))
    return hs


PROPS["C09"] = {
    "feature": "c09",
    "bounds_note": "m = 4 rows; 8 enumerated cone layouts over {Zero,NN,SOC,Exp,Pow} incl. empty/singleton cones; map: all f64 b incl. NaN/inf, bound in {1e20,100,1e-3,1e300}; reduce: 4 enumerated 4x2 patterns x all 16 drop masks, symbolic values; reverse: symbolic mask, all f64 iterates",
    "outside": "end-to-end: that the remaining entries solve the hand-reduced problem (needs the IPM); PSD cones; m > 4; symbolic bound in the drop comparison (53-bit symbolic multiplier does not finish)",
    "assumptions": ["reverse_presolve harness over-allocates the reduced s,z to length 4 (entries beyond mreduced are never read by the real code)",
                    "sparsity patterns / drop masks of the reduce harnesses are enumerated, not symbolic (CBMC needs concrete allocation sizes)"],
    "harnesses": _c09(),
}

import os, re
def _probe():
    try:
        src = open(os.path.join(os.path.dirname(os.path.abspath(__file__)), "kani/src/probe.rs")).read()
    except OSError:
        return []
    return [dict(name="probe::" + n, timeout=300, mem_gb=20, no_cover_ok=True) for n in re.findall(r"pub fn (p_\w+)\(", src)]
PROPS["PROBE"] = {"feature": "probe", "harnesses": _probe()}

_VERDICT_UNIT = "DefaultInfo::check_termination (check_convergence_full, check_convergence, is_solved, is_primal_infeasible, is_dual_infeasible)"
_H_VERDICT = {
    "c01_verdict_solved": dict(nofloat=True, timeout=600, unit=_VERDICT_UNIT, inst="f64, every bit pattern incl. NaN/inf/subnormal",
        bounds="all info fields, all tolerances, any max_iter/time_limit/iter; prior status Unsolved",
        oracle="Solved <=> ktratio<=1 & res_primal<tol_feas & res_dual<tol_feas & (gap_abs<tol_gap_abs | gap_rel<tol_gap_rel); return <=> status!=Unsolved; only status changes"),
    "c02_verdict_infeasible": dict(nofloat=True, timeout=600, unit=_VERDICT_UNIT, inst="f64 all bit patterns", bounds="as c01_verdict_solved",
        oracle="PrimalInfeasible <=> !solved & ktratio>1000/tol_ktratio & b'z<-tol_abs & res_primal_inf<-tol_rel*b'z; dual analogue, primal first"),
    "c04_verdict_limits": dict(nofloat=True, timeout=900, unit=_VERDICT_UNIT, inst="f64 all bit patterns", bounds="as c01_verdict_solved",
        oracle="InsufficientProgress <=> documented stall/divergence test; else MaxIterations <=> max_iter==iterations; else MaxTime <=> solve_time>time_limit; else Unsolved"),
    "c03_almost": dict(nofloat=True, timeout=900, unit="DefaultInfo::post_process -> check_convergence_almost", inst="f64 all bit patterns",
        bounds="all 11 prior statuses, all fields and reduced tolerances",
        oracle="status rewritten only from {NumericalError,InsufficientProgress,MaxIterations,MaxTime}, only to Almost*, only if the reduced test holds"),
    "c03_rollback": dict(nofloat=True, timeout=600, unit="DefaultInfo::save_prev_iterate / reset_to_prev_iterate, DefaultVariables::copy_from", inst="f64 all bit patterns",
        bounds="n=m=2", oracle="six info fields and x,s,z,tau,kappa restored bit-for-bit"),
    "c01_unscale": dict(timeout=900, unit="DefaultVariables::unscale (+ DefaultProblemData::new to build the data object)", inst="GF(13) (exact field; all values)",
        bounds="n=m=2, arbitrary d,dinv,e,einv,c,tau,kappa in the field", oracle="x=(x*d)/tau, z=(z*e)/(c tau), s=(s*einv)/tau; kappa instead of tau iff infeasible (cross-multiplied)"),
    "c01_post_process_fp": dict(timeout=900, unit="DefaultSolution::post_process -> DefaultVariables::unscale", inst="GF(13)",
        bounds="n=m=2, 7 non-infeasible statuses", oracle="returned x,z,s are the unscaled iterate; objectives copied"),
    "c03_solution_post_process": dict(nofloat=True, timeout=900, unit="DefaultSolution::post_process / finalize, SolverStatus::is_infeasible, DefaultVariables::unscale", inst="f64 all bit patterns",
        bounds="n=m=2, all 11 statuses, no presolve, identity scaling", oracle="status/iterations/residuals/time copied; obj NaN <=> infeasible status else = cost_primal/cost_dual; vectors returned"),
}

def _pick(names):
    return [dict(name="verdict::" + n, **_H_VERDICT[n]) for n in names]

PROPS["C01"] = {
    "feature": "c01",
    "bounds_note": "verdict logic: every f64 bit pattern of every field and tolerance; unscale/post-process: n=m=2",
    "outside": "that the interior-point iteration reaches an iterate satisfying the test; rounding of residual norms; cone membership of the final iterate (see C07/C15); PSD cones; faer backend",
    "assumptions": ["check_termination is entered with status == Unsolved (loop invariant of Solver::solve, decided by the C04 loop harness)"],
    "harnesses": _pick(["c01_verdict_solved", "c01_unscale", "c01_post_process_fp", "c03_solution_post_process"]),
}
PROPS["C02"] = {
    "feature": "c02",
    "bounds_note": "every f64 bit pattern; n=m=2 for the vectors",
    "outside": "that a certificate is found; numerical size of A'z; membership of z in K*",
    "assumptions": PROPS["C01"]["assumptions"],
    "harnesses": _pick(["c02_verdict_infeasible", "c03_solution_post_process", "c01_unscale"]),
}
PROPS["C03"] = {
    "feature": "c03",
    "bounds_note": "every f64 bit pattern; n=m=2 for the vectors",
    "outside": "agreement of the reported residual figures with an independent recomputation from the returned point (floating-point norms); chordal decomposition",
    "assumptions": [],
    "harnesses": _pick(["c03_almost", "c03_rollback", "c03_solution_post_process"]),
}
