"""
Registry of Kani harnesses per property (single source for the driver and the evidence files).

Fields per harness:
  name     fully qualified harness path inside the verif-kani crate
  tier     "quick" (run in both tiers) | "thorough" (thorough tier only)
  rot      True: rotating shape variant; quick runs ~1/3 of them, selected by VERIF_SEED
  timeout  seconds (wall) for this harness; mem_gb: address-space cap
  nofloat  True: run without CBMC's NaN/float-overflow instrumentation (harness quantifies over all f64)
  stubs    True: uses #[kani::stub] (-Z stubbing)
  unit / inst / bounds / oracle   free text copied into the evidence file
"""

PROPS = {}

# ---------------------------------------------------------------------------------------------
# self test of the driver (not a property; not in MANIFEST): a harness that must FAIL and replay
# ---------------------------------------------------------------------------------------------
PROPS["ST"] = {
    "feature": "selftest",
    "harnesses": [
        dict(name="selftest::st_must_fail", unit="qdldl::_invperm", bounds="n=2",
             oracle="(deliberately wrong) every [usize;2] is accepted"),
        dict(name="selftest::st_must_pass", unit="qdldl::_invperm", bounds="n=2", oracle="identity accepted"),
    ],
}

def _c12():
    H = []
    def add(name, **kw):
        kw.setdefault("timeout", 900)
        H.append(dict(name="c12::" + name, **kw))
    add("c12_invperm_n4", unit="qdldl::_invperm", inst="usize", bounds="all [usize;4]", oracle="Ok <=> permutation of 0..n; result is the inverse", timeout=300)
    add("c12_invperm_n5", tier="thorough", unit="qdldl::_invperm", inst="usize", bounds="all [usize;5]", oracle="same")
    add("c12_perm_roundtrip_n5", unit="qdldl::permute / ipermute (get_unchecked)", inst="i32", bounds="all valid permutations of 5, all i32 data", oracle="permute gathers b[p[i]]; ipermute(permute(b)) == b; memory safe")
    for n in ("c12_structure_3x3_nnz4", "c12_structure_3x3_nnz3", "c12_structure_3x2"):
        add(n, unit="qdldl::check_structure, CscMatrix::is_triu/is_square", inst="f64 (structure only)", bounds="symbolic canonical pattern " + n[14:],
            oracle="IncompatibleDimension <=> non-square; NotUpperTriangular <=> entry below diagonal; EmptyColumn <=> empty column; else Ok", **({"rot": True} if n.endswith("nnz3") else {}))
    add("c12_permute_map_n3_nnz4", unit="qdldl::permute_symmetric / _permute_symmetric_inner", inst="GF(13) values", bounds="n=3, nnz=4 symbolic triu pattern, all valid iperm",
        oracle="AtoPAPt injective; entry k lands at (min,max)(iperm[r],iperm[c]) carrying its value => P == P A P' (upper)")
    add("c12_permute_map_n3_nnz5", tier="thorough", unit="qdldl::permute_symmetric", inst="GF(13)", bounds="n=3, nnz=5", oracle="same")
    add("c12_permute_map_n4_nnz6", tier="thorough", unit="qdldl::permute_symmetric", inst="GF(13)", bounds="n=4, nnz=6", oracle="same", timeout=2400, mem_gb=24)
    ldl_or = "Ok <=> all leading principal minors != 0; then L D L' == A entrywise, Dinv*D == 1, D_k = m_k/m_(k-1), L pattern == reference fill, Lp = cumsum(Lnz), rows in range/no duplicates; else Err(ZeroPivot)"
    for k in range(8):
        add("c12_ldl3_p%d" % k, unit="qdldl::_etree + _factor_inner (numeric, unchecked indexing)", inst="GF(13), all values", bounds="n=3, off-diagonal pattern mask %d (all 8 enumerated), full diagonal" % k,
            oracle=ldl_or, timeout=(3600 if k == 7 else 1200), **({"tier": "thorough"} if k == 7 else {} if k in (5, 2) else {"rot": True}))
    add("c12_ldl3_p7_nodiag1", unit="qdldl::_etree + _factor_inner", inst="GF(13)", bounds="n=3 dense off-diagonals, missing diagonal entry (1,1)", oracle=ldl_or, rot=True)
    add("c12_ldl3_p5_nodiag2", unit="qdldl::_etree + _factor_inner", inst="GF(13)", bounds="n=3 mask 5, missing diagonal entry (2,2)", oracle=ldl_or, rot=True)
    # (mask 63, the dense 4x4 pattern, exceeds the 24 GB cap; mask 11 did not finish in an hour: not registered)
    for k in (37, 56, 25, 42):
        add("c12_ldl4_p%d" % k, tier="thorough", unit="qdldl::_etree + _factor_inner", inst="GF(13)", bounds="n=4, off-diagonal mask %d, full diagonal" % k, oracle=ldl_or, timeout=7200, mem_gb=24)
    add("c12_refactor3_dense", unit="qdldl::_factor_inner twice on one workspace (what QDLDLFactorisation::refactor does)", inst="GF(13)", bounds="n=3 dense; first values arbitrary (may stop at a zero pivot)",
        oracle="L, D, Dinv, verdict of the refactorisation == those of a fresh factorisation of the new values")
    add("c12_refactor3_nodiag1", unit="qdldl::_factor_inner twice on one workspace", inst="GF(13)", bounds="n=3 dense off-diagonals, stored diagonal entry (1,1) missing", oracle="same (the pivot accumulator D is re-initialised)")
    add("c12_refactor3_nodiag2", tier="thorough", unit="qdldl::_factor_inner twice", inst="GF(13)", bounds="n=3 mask 5, diagonal entry (2,2) missing", oracle="same")
    add("c12_refactor3_arrow", tier="thorough", unit="qdldl::_factor_inner twice", inst="GF(13)", bounds="n=3 arrow pattern", oracle="same")
    sol_or = "(L+I) D (L+I)' x == b for all L values, nonzero D, b; safe and unchecked substitutions agree"
    add("c12_solve3_dense", unit="qdldl::_solve (_lsolve_unsafe, _dltsolve_unsafe), _lsolve_safe, _ltsolve_safe, _ltsolve_unsafe", inst="GF(13)", bounds="n=3 dense L", oracle=sol_or)
    add("c12_solve3_sparse", unit="qdldl::_solve", inst="GF(13)", bounds="n=3 L mask 5", oracle=sol_or, rot=True)
    add("c12_solve4_dense", tier="thorough", unit="qdldl::_solve", inst="GF(13)", bounds="n=4 dense L", oracle=sol_or, timeout=2400)
    add("c12_solve4_sparse", tier="thorough", unit="qdldl::_solve", inst="GF(13)", bounds="n=4 L mask 0b101001", oracle=sol_or, timeout=2400)
    reg_or = "pivot replaced by delta*sign <=> regularisation on and D*sign < eps; count matches; positive inertia == #{D>0}; Err(ZeroPivot) <=> a pivot == 0"
    add("c12_inertia_after_refactor", nofloat=True, unit="QDLDLFactorisation::{new, update_values, refactor, positive_inertia} (public API; _qdldl_new, _factor, QDLDLWorkspace)", inst="f64", bounds="2x2 diagonal matrix, identity ordering supplied (no AMD), regularisation off, LOGICAL construction, then update_values with symbolic small integers and refactor", oracle="positive_inertia() == number of positive entries of D after the refactor", timeout=1500, mem_gb=24)
    add("c12_inertia_after_refactor_numeric", nofloat=True, unit="same", inst="f64", bounds="same, numeric construction (values 1, 1)", oracle="also == 2 after new", timeout=1500, mem_gb=24)
    add("c12_regularize_signs_ppm", nofloat=True, unit="qdldl::_factor_inner (regularisation / inertia logic)", inst="f64, every bit pattern", bounds="n=3 diagonal, signs (+,+,-), any eps/delta, enable on/off", oracle=reg_or)
    add("c12_regularize_signs_mpm", nofloat=True, tier="thorough", unit="qdldl::_factor_inner", inst="f64 all bit patterns", bounds="n=3 diagonal, signs (-,+,-)", oracle=reg_or)
    return H


PROPS["C12"] = {
    "feature": "c12",
    "bounds_note": "n<=3 quick / n<=4 thorough (n<=5 for permutation utilities); sparsity patterns enumerated (all 8 for n=3), values/permutations symbolic; GF(13) for algebra, f64 for regularisation logic",
    "outside": "backward stability / floating-point accuracy; AMD ordering; n>4; regularisation combined with off-diagonal fill (products of symbolic f64)",
    "assumptions": ["GF(13) identities transfer to the reals as polynomial identities (degree < 13 per variable); nothing about rounding",
                    "positive_inertia in GF(p) counts nonzero representatives (order is meaningless in the field); the real-order logic is decided in the f64 regularize harnesses"],
    "harnesses": _c12(),
}


def _c09():
    hs = []
    lay = {0: "[NN1,Zero1,NN2]", 1: "[Exp,NN1]", 2: "[NN4]", 3: "[Zero2,NN2]", 4: "[NN1,Pow]", 5: "[NN2,SOC2]",
           6: "[NN1,NN0,SOC1,NN2]", 7: "[SOC3,Zero1]"}
    bnd = {0: "1e20", 1: "100", 2: "1e-3", 3: "1e300", 4: "1e20", 5: "100", 6: "1e20", 7: "1e20"}
    pat = {0: "mixed", 1: "dense", 2: "empty first col", 3: "empty last col", 4: "dense", 5: "mixed", 6: "dense"}
    core = {0, 1, 6}
    for l in range(8):
        q = dict(tier="quick") if l in core else dict(tier="quick", rot=True)
        hs.append(dict(name="c09::c09_map_l%d" % l, nofloat=True, timeout=600, **q,
                       unit="Presolver::new -> make_reduction_map; set_infinity/get_infinity", inst="f64 (all bit patterns for b)",
                       bounds="cones=%s, all f64 b[4] incl NaN/inf, bound=%s (concrete)" % (lay[l], bnd[l]),
                       oracle="dropped <=> (row in NN cone and b>=bound) [band of 16 eps below bound undetermined]; mreduced; map None iff nothing dropped"))
        if l == 7:
            continue
        hs.append(dict(name="c09::c09_reduce_l%d" % l, timeout=1200, mem_gb=20, **q,
                       unit="Presolver::presolve (reduce_A_b, reduce_cones), CscMatrix::select_rows, VectorMath::select", inst="f64 small ints",
                       bounds="cones=%s, A 4x2 pattern '%s', all 16 drop masks (concrete loop), symbolic values" % (lay[l], pat[l]),
                       oracle="A,b rows deleted in order; A canonical; nn cones shrink, emptied cones vanish, others unchanged; dims sum to mreduced"))
        hs.append(dict(name="c09::c09_reverse_l%d" % l, nofloat=True, timeout=600, **q,
                       unit="Presolver::reverse_presolve", inst="f64 all bit patterns", bounds="cones=%s, symbolic drop mask" % lay[l],
                       oracle="lengths = user's; dropped rows z=0, s=bound at construction; kept rows in order; x copied"))
    for nm, b in (("c09_reduce_l0_dense", "cones=[NN1,Zero1,NN2], dense A"), ("c09_reduce_l6_mixed", "cones=[NN1,NN0,SOC1,NN2], mixed A")):
        hs.append(dict(name="c09::" + nm, tier="thorough", timeout=1800, mem_gb=20, unit="Presolver::presolve", inst="f64 small ints",
                       bounds=b + ", 16 masks", oracle="as c09_reduce"))
    hs.append(dict(name="c09::c09_bound_capture", nofloat=True, timeout=600, unit="Presolver::new, set_infinity", inst="f64 all bit patterns",
                   bounds="symbolic bound and later value", oracle="stored bound == bound in force at construction"))
    hs.append(dict(name="c09::c09_infbound", nofloat=True, unit="set_infinity/get_infinity/default_infinity", inst="f64 all bit patterns", bounds="-",
                   oracle="round trip; default is 1e20", timeout=300))
    for nm, bd in (("c09_cap_with_active_presolve", "b = [1e30 (dropped), 5, sym, sym]"), ("c09_cap_without_reduction", "b = [7, 5, sym, sym] (no row dropped)")):
        hs.append(dict(name="c09::" + nm, nofloat=True, stubs=True, timeout=1800, mem_gb=20, unit="DefaultProblemData::new (new_collapsed, try_presolver, Presolver::new/presolve, select_rows, cap of b at the bound); get_infinity stubbed to the constant 1e20",
                       inst="f64: second-order-cone rows of b over all non-NaN bit patterns, A small integers", bounds="n=1, cones [NN2, SOC2], " + bd + ", equilibration off",
                       oracle="reduced b = user's b with dropped rows deleted and every entry capped at the bound; reduced A = A with the dropped row deleted"))
    return hs


PROPS["C09"] = {
    "feature": "c09",
    "bounds_note": "m = 4 rows; 8 enumerated cone layouts over {Zero,NN,SOC,Exp,Pow} incl. empty/singleton cones; map: all f64 b incl. NaN/inf, bound in {1e20,100,1e-3,1e300}; reduce: 4 enumerated 4x2 patterns x all 16 drop masks, symbolic values; reverse: symbolic mask, all f64 iterates",
    "outside": "end-to-end: that the remaining entries solve the hand-reduced problem (needs the IPM); PSD cones; m > 4; symbolic bound in the drop comparison (53-bit symbolic multiplier does not finish)",
    "assumptions": ["reverse_presolve harness over-allocates the reduced s,z to length 4 (entries beyond mreduced are never read by the real code)",
                    "sparsity patterns / drop masks of the reduce harnesses are enumerated, not symbolic (CBMC needs concrete allocation sizes)"],
    "harnesses": _c09(),
}

import os, re
def _probe():
    try:
        src = open(os.path.join(os.path.dirname(os.path.abspath(__file__)), "kani/src/probe.rs")).read()
    except OSError:
        return []
    return [dict(name="probe::" + n, timeout=int(os.environ.get("PROBE_TIMEOUT","240")), mem_gb=16, no_cover_ok=True) for n in re.findall(r"pub fn (p_\w+)\(", src)]
PROPS["PROBE"] = {"feature": "probe", "harnesses": _probe()}

_VERDICT_UNIT = "DefaultInfo::check_termination (check_convergence_full, check_convergence, is_solved, is_primal_infeasible, is_dual_infeasible)"
_CHEAP = " The two recomputed products are kept cheap: tol_ktratio and (this harness) %s range over {+-2^k for every normal exponent, +-0, +-inf, NaN}; every other field and tolerance over all f64 bit patterns"
_H_VERDICT = {
    "c01_verdict_solved": dict(nofloat=True, timeout=600, unit=_VERDICT_UNIT, inst="f64, every bit pattern incl. NaN/inf/subnormal",
        bounds="all info fields, all tolerances, any max_iter/time_limit/iter; prior status Unsolved",
        oracle="Solved <=> ktratio<=1 & res_primal<tol_feas & res_dual<tol_feas & (gap_abs<tol_gap_abs | gap_rel<tol_gap_rel); return <=> status!=Unsolved; only status changes"),
    "c02_verdict_infeasible": dict(nofloat=True, timeout=900, unit=_VERDICT_UNIT, inst="f64 bit-precise", bounds="as c01_verdict_solved." + _CHEAP % "tol_infeas_rel",
        oracle="PrimalInfeasible <=> !solved & ktratio>1000/tol_ktratio & b'z<-tol_abs & res_primal_inf<-tol_rel*b'z; dual analogue, primal first"),
    "c02_verdict_infeasible_dots": dict(nofloat=True, timeout=900, unit=_VERDICT_UNIT, inst="f64 bit-precise", bounds="as c01_verdict_solved." + _CHEAP % "b'z and q'x (tol_infeas_rel: all f64)",
        oracle="same"),
    "c04_verdict_limits": dict(nofloat=True, timeout=900, unit=_VERDICT_UNIT, inst="f64 bit-precise", bounds="as c01_verdict_solved." + _CHEAP % "tol_infeas_rel",
        oracle="InsufficientProgress => not converged, residuals worse, stall or ktratio<1; stall => InsufficientProgress; else MaxIterations <=> max_iter==iterations; else MaxTime <=> solve_time>time_limit; else Unsolved (the factor 100 of the divergence test is outside: f64 multiplier equivalence)"),
    "c03_almost": dict(nofloat=True, timeout=900, unit="DefaultInfo::post_process -> check_convergence_almost", inst="f64 bit-precise",
        bounds="all 11 prior statuses, all fields and reduced tolerances." + _CHEAP % "reduced_tol_infeas_rel",
        oracle="status rewritten only from {NumericalError,InsufficientProgress,MaxIterations,MaxTime}, only to Almost*, only if the reduced test holds"),
    "c03_rollback": dict(nofloat=True, timeout=600, unit="DefaultInfo::save_prev_iterate / reset_to_prev_iterate, DefaultVariables::copy_from", inst="f64 all bit patterns",
        bounds="n=m=2", oracle="six info fields and x,s,z,tau,kappa restored bit-for-bit"),
    "c01_unscale": dict(timeout=900, unit="DefaultVariables::unscale (+ DefaultProblemData::new to build the data object)", inst="GF(13) (exact field; all values)",
        bounds="n=m=2, arbitrary d,dinv,e,einv,c,tau,kappa in the field", oracle="x=(x*d)/tau, z=(z*e)/(c tau), s=(s*einv)/tau; kappa instead of tau iff infeasible (cross-multiplied)"),
    "c01_scale_invariance_fp_m1": dict(stubs=True, timeout=1800, mem_gb=24, unit="DefaultResiduals::update + DefaultInfo::update (gemv, symv, dot, norm_scaled, norm_inf_scaled, get_normq/get_normb), DefaultProblemData::new", inst="GF(13), canonical square root",
        bounds="n=1, m=1; data, iterate and the scalings d, e: every field value (d, e non-zero); c = tau = 1", oracle="every termination quantity (costs, residuals, infeasibility residuals, gaps, ktratio) computed from the equilibrated presentation equals the one computed from the user's data with the unscaled iterate; cost formulas q'x+x'Px/2, -b'z-x'Px/2"),
    "c01_scale_invariance_fp_m2": dict(stubs=True, tier="thorough", timeout=3600, mem_gb=28, unit="same", inst="same", bounds="n=1, m=2", oracle="same"),
    "c01_scale_invariance_m1_a": dict(nofloat=True, stubs=True, tier="thorough", timeout=7200, mem_gb=28, unit="DefaultResiduals::update + DefaultInfo::update (gemv, symv, dot, norm_scaled, get_normq/get_normb)", inst="f64: data/iterate small integers |v|<=3, scalings powers of two (all products exact)",
        bounds="n=1, m=1; scalings d=2, e=1/2, c=4, tau=2 (concrete); data and iterate symbolic small integers", oracle="every termination quantity (costs, residuals, gaps, ktratio) is bit-identical when computed from the internally scaled presentation and from the user's data with the unscaled iterate; cost formulas q'x+x'Px/2, -b'z-x'Px/2"),
    "c01_scale_invariance_m1_b": dict(nofloat=True, stubs=True, tier="thorough", timeout=9000, mem_gb=28, unit="same", inst="same", bounds="n=1, m=1; d=1/4, e=4, c=1/2, tau=1", oracle="same"),
    "c01_scale_invariance_m1_c": dict(nofloat=True, stubs=True, tier="thorough", timeout=7200, mem_gb=28, unit="same", inst="same", bounds="n=1, m=1; d=4, e=2, c=1/4, tau=4", oracle="same"),
    "c01_post_process_fp": dict(timeout=900, unit="DefaultSolution::post_process -> DefaultVariables::unscale", inst="GF(13)",
        bounds="n=m=2, 7 non-infeasible statuses", oracle="returned x,z,s are the unscaled iterate; objectives copied"),
    "c03_solution_post_process": dict(nofloat=True, timeout=900, unit="DefaultSolution::post_process / finalize, SolverStatus::is_infeasible, DefaultVariables::unscale", inst="f64 all bit patterns",
        bounds="n=m=2, all 11 statuses, no presolve, identity scaling", oracle="status/iterations/residuals/time copied; obj NaN <=> infeasible status else = cost_primal/cost_dual; vectors returned"),
}

def _pick(names):
    return [dict(name="verdict::" + n, **_H_VERDICT[n]) for n in names]

PROPS["C01"] = {
    "feature": "c01",
    "bounds_note": "verdict logic: every f64 bit pattern of every field and tolerance; unscale/post-process: n=m=2",
    "outside": "that the interior-point iteration reaches an iterate satisfying the test; rounding of residual norms; cone membership of the final iterate (see C07/C15); PSD cones; faer backend",
    "assumptions": ["check_termination is entered with status == Unsolved (loop invariant of Solver::solve, decided by the C04 loop harness)"],
    "harnesses": _pick(["c01_verdict_solved", "c01_unscale", "c01_post_process_fp", "c03_solution_post_process", "c01_scale_invariance_fp_m1", "c01_scale_invariance_fp_m2", "c01_scale_invariance_m1_a", "c01_scale_invariance_m1_b", "c01_scale_invariance_m1_c"]),
}
PROPS["C02"] = {
    "feature": "c02",
    "bounds_note": "every f64 bit pattern; n=m=2 for the vectors",
    "outside": "that a certificate is found; numerical size of A'z; membership of z in K*",
    "assumptions": PROPS["C01"]["assumptions"],
    "harnesses": _pick(["c02_verdict_infeasible", "c02_verdict_infeasible_dots", "c03_almost", "c03_solution_post_process", "c01_unscale", "c01_scale_invariance_fp_m1"]),
}
PROPS["C03"] = {
    "feature": "c03",
    "bounds_note": "every f64 bit pattern; n=m=2 for the vectors",
    "outside": "agreement of the reported residual figures with an independent recomputation from the returned point (floating-point norms); chordal decomposition",
    "assumptions": [],
    "harnesses": _pick(["c03_almost", "c03_rollback", "c03_solution_post_process", "c01_scale_invariance_fp_m1"]),
}


def _c16():
    H = []
    def add(name, **kw):
        kw.setdefault("timeout", 900)
        H.append(dict(name="c16::" + name, **kw))
    fmt_or = "check_format().is_ok() <=> reference canonical predicate (lengths consistent, colptr[0]==0, colptr monotone, colptr[n]==nnz, rows strictly increasing per column, rows < m)"
    add("c16_format_3x3_nnz3", unit="CscMatrix::check_format / check_dimensions", inst="i32", bounds="3x3, 3 stored entries, arbitrary colptr/rowval contents", oracle=fmt_or)
    add("c16_format_2x3_nnz4", unit="CscMatrix::check_format", inst="i32", bounds="2x3, 4 stored entries", oracle=fmt_or, rot=True)
    add("c16_format_3x2_nnz2", unit="CscMatrix::check_format", inst="i32", bounds="3x2, 2 stored entries", oracle=fmt_or, rot=True)
    add("c16_format_lengths", unit="CscMatrix::check_format", inst="i32", bounds="n<=3, colptr length <=3, nzval shorter than rowval", oracle="length mismatches rejected")
    q_or = "index_to_coord(k) = true coordinate of entry k; get_entry = stored value / None iff not structural; is_triu <=> nothing below diagonal; count_diagonal; findnz"
    add("c16_queries_3x3_nnz4", unit="CscMatrix::index_to_coord/get_entry/is_triu/count_diagonal_entries/findnz/nnz", inst="i32", bounds="3x3 nnz=4 symbolic canonical pattern", oracle=q_or)
    add("c16_queries_2x3_nnz3", unit="same", inst="i32", bounds="2x3 nnz=3", oracle=q_or, rot=True)
    add("c16_gemv_3x2_nnz3", unit="MatrixVectorMultiply::gemv for CscMatrix and Adjoint (_csc_axpby_N/_T)", inst="GF(13)", bounds="3x2 nnz=3 symbolic pattern, all a,b,x,y", oracle="y = a*A*x + b*y and y = a*A'*x + b*y (dense reference), incl. a,b in {0,1,-1} fast paths")
    add("c16_gemv_2x3_nnz4", unit="same", inst="GF(13)", bounds="2x3 nnz=4", oracle="same", tier="thorough", timeout=2400)
    add("c16_symv_2x2_nnz3", unit="SymMatrixVectorMultiply::symv (_csc_symv_unsafe, unchecked indexing), MatrixMath::quad_form", inst="GF(13)", bounds="2x2 triu nnz=3", oracle="y = a*sym(A)*x + b*y; quad_form = y' sym(A) x; memory safe")
    add("c16_symv_3x3_nnz4", tier="thorough", timeout=5400, unit="same", inst="GF(13)", bounds="3x3 triu nnz=4 symbolic pattern", oracle="same")
    add("c16_scalings_3x2_nnz3", unit="MatrixMathMut::lscale/rscale/lrscale/scale/negate, MatrixMath::col_sums/row_sums", inst="GF(13)", bounds="3x2 nnz=3 symbolic pattern", oracle="entrywise dense definition; pattern unchanged")
    add("c16_scalings_2x3_nnz4", unit="same", inst="GF(13)", bounds="2x3 nnz=4", oracle="same", tier="thorough", timeout=1800)
    add("c16_norms_3x3_nnz4", nofloat=True, unit="MatrixMath::col_norms/col_norms_no_reset/col_norms_sym/row_norms", inst="f64, every non-NaN value", bounds="3x3 nnz=4 symbolic pattern", oracle="max |a_ij| per column / row / symmetric column; no_reset accumulates")
    add("c16_norms_2x3_nnz3", nofloat=True, unit="same", inst="f64", bounds="2x3 nnz=3", oracle="same", rot=True)
    add("c16_transpose_3x2_nnz3", unit="From<Adjoint<CscMatrix>> (colcount_block(T), colcount_to_colptr, fill_block, backshift_colptrs)", inst="i32", bounds="3x2 nnz=3 symbolic pattern", oracle="canonical; B[j][i] == A[i][j]")
    add("c16_transpose_2x3_nnz4", unit="same", inst="i32", bounds="2x3 nnz=4", oracle="same", rot=True)
    add("c16_findnz_3x2", unit="CscMatrix::findnz", inst="i32", bounds="4 enumerated 3x2 patterns, symbolic values", oracle="triplets list every stored entry in storage order")
    add("c16_dropzeros_3x2_nnz4", unit="CscMatrix::dropzeros", inst="i32", bounds="3x2 nnz=4 symbolic pattern/values", oracle="canonical; no stored zero; dense meaning kept")
    add("c16_to_triu_2x2_all", unit="CscMatrix::to_triu / is_triu", inst="i32", bounds="all 16 patterns of a 2x2 matrix, symbolic values", oracle="canonical triu; upper entries kept, lower removed; identity on triu input", timeout=1500)
    add("c16_to_triu_3x3_some", unit="same", inst="i32", bounds="6 representative 3x3 patterns", oracle="same", timeout=1500)
    add("c16_select_rows_4x2", unit="CscMatrix::select_rows", inst="i32", bounds="4x2 pattern 0b10110110, all 16 row masks, symbolic values", oracle="canonical; kept rows in order", timeout=1500)
    add("c16_select_rows_3x3", unit="same", inst="i32", bounds="3x3 pattern, all 8 row masks", oracle="same", tier="thorough", timeout=1500)
    add("c16_triplets_2x2_k3", unit="CscMatrix::new_from_triplets (sortperm_by, permute, colcount_to_colptr)", inst="i32", bounds="2x2, 3 triplets, arbitrary coordinates (unsorted, duplicated)", oracle="canonical; dense = sum of triplets; one entry per distinct coordinate", timeout=1500)
    add("c16_triplets_3x2_k4", unit="same", inst="i32", bounds="3x2, 4 triplets", oracle="same", tier="thorough", timeout=3000, mem_gb=24)
    # c16_canonicalize_* (sort_indices + deduplicate: permutation vectors, truncation): even 2 entries in one column did not finish in 25 min - unregistered (outside)
    # c16_from_rows_2x2 (From<rows>): nested Vec<Vec<T>> collects with value-dependent pushes - out of memory; unregistered (outside)
    add("c16_set_entry_2x3", unit="CscMatrix::set_entry / get_entry (colptr_to_colcount, colcount_to_colptr)", inst="i32", bounds="2x3 pattern with an empty middle... all 6 coordinates, symbolic nonzero value and zero", oracle="canonical kept; only that coordinate changes; zero never allocates", timeout=1500)
    add("c16_set_entry_3x2_emptycol", unit="same", inst="i32", bounds="3x2 pattern with empty last column", oracle="same", rot=True, timeout=1500)
    add("c16_concat_2x2", unit="BlockConcatenate::hcat/vcat/blockdiag/hvcat", inst="GF(13)", bounds="two 2x2 blocks, nnz 2 and 3, symbolic patterns", oracle="canonical; dense block layout", timeout=1500)
    add("c16_concat_nonsquare", unit="BlockConcatenate::blockdiag/vcat (colcount_block, fill_block, backshift_colptrs)", inst="GF(13)", bounds="blocks 3x1, 1x2, 2x1 with symbolic patterns", oracle="each block at its own row AND column offset; canonical", timeout=1800, mem_gb=20)
    add("c16_concat_dim_errors", unit="hvcat_dim_check", inst="GF(13)", bounds="2x2 vs 3x2 vs 2x3", oracle="dimension mismatch <=> Err")
    return H


PROPS["C16"] = {
    "feature": "c16",
    "bounds_note": "shapes up to 3x3 / 4x2, 2-4 stored entries; symbolic canonical patterns for in-place/read-only operations; enumerated patterns with symbolic values where the result is allocated with a data-dependent size",
    "outside": "larger shapes; floating-point rounding of products/sums (numeric kernels are decided over GF(13): the identity of the computed polynomial, not its rounding); hvcat with more than 2 blocks; canonicalize (sort_indices + deduplicate) and From<rows> (nested Vec collects): heap-heavy, did not finish / out of memory - harnesses kept unregistered in c16.rs",
    "assumptions": ["norm harnesses exclude NaN entries"],
    "harnesses": _c16(),
}


def _mk(mod, items):
    H = []
    for (n, kw) in items:
        kw = dict(kw)
        kw.setdefault("timeout", 900)
        H.append(dict(name=mod + "::" + n, **kw))
    return H

PROPS["C17"] = {
    "feature": "c17",
    "bounds_note": "union-find: one query / one union from an arbitrary valid state on 8 elements (inductive; 8 = smallest size with a depth-3 tree) plus 5 elements / 4 unions from the initial state; Kruskal: 4 cliques, 4-5 weighted edges, symbolic pattern and weights; connect_graph: all 8 lower patterns n=3",
    "outside": "pothen_sun supernodes, post_order, find_separators, all three merge strategies, reorder_snode_consecutively, running-intersection / coverage of the clique tree: all IndexSet/HashMap based, which Kani cannot execute (hashbrown insertion does not terminate symbolically) - NOT decided here",
    "assumptions": [],
    "harnesses": _mk("c17", [
        ("c17_dsu_query_inductive_n8", dict(unit="DisjointSetUnion::{in_same_set,root} (path compression)", inst="usize", bounds="ONE query from an ARBITRARY valid state on 8 elements (rank-increasing forest with subtree size >= 2^rank: the union-by-rank invariant); 8 is the smallest size with a depth-3 tree", oracle="in_same_set(x,y) <=> same true root; compression keeps every root", timeout=1800, mem_gb=20)),
        ("c17_dsu_union_inductive_n6", dict(unit="DisjointSetUnion::union", inst="usize", bounds="ONE union from an arbitrary valid state on 6 elements (ranks <= 2: a rank-2 set of four and a rank-1 set of two fit)", oracle="merges exactly the two components; preserves the invariant", timeout=2400, mem_gb=24)),
        ("c17_dsu_union_inductive_n8", dict(tier="thorough", unit="DisjointSetUnion::union", inst="usize", bounds="ONE union from an arbitrary valid state on 8 elements", oracle="merges exactly the two components; preserves the invariant (=> histories of any length, by induction)", timeout=9000, mem_gb=24)),
        ("c17_dsu_n5_u4", dict(tier="thorough", unit="DisjointSetUnion::{new,union,in_same_set,root}", inst="usize", bounds="5 elements, any 4 unions from the initial state, any query", oracle="in_same_set <=> connected by the unions made", timeout=2400, mem_gb=20)),
        ("c17_kruskal_n4_a", dict(tier="thorough", unit="clique_graph::kruskal (findnz, sortperm_rev, permute, DisjointSetUnion)", inst="isize weights", bounds="4 cliques; edge sets {K4, 4-cycle, path}; symbolic weights 0..5", oracle="edges marked -1 form an acyclic spanning forest connecting exactly the graph's components; others untouched", timeout=3000, mem_gb=20)),
        ("c17_kruskal_n4_b", dict(tier="thorough", unit="same", inst="isize", bounds="4 cliques; edge sets {star, triangle+isolated, two disjoint edges, single edge}", oracle="same", timeout=3000, mem_gb=24)),
        ("c17_sparsity_mask", dict(unit="chordal_info::find_aggregate_sparsity_mask", inst="f64", bounds="A 4x2 nnz=3 symbolic, b in {-1,0,1}^4", oracle="row active <=> structural entry in A or nonzero b")),
        ("c17_connect_graph_n3", dict(unit="chordal_info::connect_graph (CscMatrix::set_entry)", inst="f64", bounds="all 8 strictly-lower patterns of a 3x3 L", oracle="afterwards every column but the last has an entry below the diagonal; only additions; canonical", timeout=1500)),
    ]),
}
PROPS["C18"] = {
    "feature": "c18",
    "bounds_note": "index maps: all indices < 2^12 (2^24 thorough); clique lists of length 3-4 with vertices < 8-12; H 3x3 with 4 entries",
    "outside": "find_compact_A_b_and_cones, decomp_reverse_compact, psd_complete (HashMap / LAPACK); end-to-end equivalence of decomposed and original solves - NOT decided here",
    "assumptions": ["CBMC's IEEE-754 sqrt model (isqrt goes through f64::sqrt)"],
    "harnesses": _mk("c18", [
        ("c18_tri_index_roundtrip_12bit", dict(nofloat=True, unit="scalarmath::upper_triangular_index_to_coord / coord_to_upper_triangular_index / isqrt", inst="usize", bounds="all idx < 2^12", oracle="mutually inverse; row<=col; idx = c(c+1)/2 + r", timeout=1500)),
        ("c18_tri_index_roundtrip_24bit", dict(nofloat=True, tier="thorough", unit="same", inst="usize", bounds="all idx < 2^24", oracle="same", timeout=7200, mem_gb=20)),
        ("c18_tri_numbers", dict(unit="scalarmath::triangular_number / triangular_index", inst="usize", bounds="k < 2^12", oracle="k(k+1)/2 and T(k+1)-1", timeout=1200)),
        ("c18_subblock_map", dict(unit="augment_standard::add_subblock_map", inst="usize", bounds="clique of 3 vertices < 8, row_start < 100", oracle="appends start + svec(v_i,v_j) for i<=j in packed order")),
        ("c18_parent_block_indices", dict(unit="augment_compact::parent_block_indices", inst="usize", bounds="parent clique of 4 vertices < 10", oracle="svec index of (position of i, position of j)")),
        ("c18_get_row_index", dict(unit="augment_compact::get_row_index (partition_point over a bounded window)", inst="usize", bounds="5 sorted distinct rows < 12, any column sub-range, row_range.start <= 6, k <= 6", oracle="Some(position) iff the row start+k is stored in the column range, at that position", timeout=1200)),
        ("c18_rows_subset", dict(unit="augment_compact::get_rows_subset", inst="usize", bounds="4 sorted rows < 12, any range in 0..12", oracle="range of positions whose row lies in the range; None only if empty")),
        ("c18_alternating_and_extra_columns", dict(nofloat=True, unit="augment_compact::alternating_sequence / extra_columns", inst="f64/usize", bounds="length 8, n_start <= 8", oracle="+1 ... then (+1,-1) pairs; pairs share consecutive new column numbers")),
        ("c18_overlaps_in_rows", dict(unit="reverse_standard::number_of_overlaps_in_rows (row_sums, position_all)", inst="f64", bounds="four enumerated 3x3 0/1 patterns", oracle="rows with >1 entries, in order, with their counts")),
    ]),
}

_LOOP_UNIT = ("core::solver::Solver::solve (REAL generic main loop + IPSolverInternals: default_start, get_step_length, backtrack_step_to_barrier, "
              "strategy_checkpoint_{insufficient_progress,numerical_error,small_step,is_scaling_success}) with the REAL DefaultInfo::{reset,check_termination,post_process,"
              "save_scalars,save_prev_iterate,reset_to_prev_iterate,get_status,set_status}; all other components are stubs returning arbitrary values")
_LOOP_OR = ("returns without panic/unreachable; status != Unsolved; iterations <= max_iter; passes <= max_iter+2; every check_termination entered with status Unsolved; "
            "after solve_time > time_limit is observed at a check at most one further pass, and only through the scaling-strategy switch")
_COLLAPSE_KINDS = {"k0": "Zero(0)", "k1": "Zero(d)", "k2": "NN(0)", "k3": "NN(d)", "k4": "SOC(0)", "k5": "SOC(1)", "k6": "SOC(1+d)", "k7": "Exp", "k8": "Pow"}
def _collapse(ks, tier):
    return [dict(name="c05::c04_collapse_" + k, tier=tier, unit="SupportedConeT::new_collapsed", inst="usize cone dimensions", timeout=2400, mem_gb=20,
                 bounds="3 cones: first %s, the other two over all 9x9 kinds {Zero(0),Zero(d),NN(0),NN(d),SOC(0),SOC(1),SOC(1+d),Exp,Pow} (enumerated: control flow), dimensions d symbolic in 1..2" % _COLLAPSE_KINDS[k],
                 oracle="no panic; no empty cone / SOC(1) / adjacent NN pair in the output; every row keeps its cone kind and order (collapsed rows become nonnegative rows)") for k in ks]

def _c04():
    H = []
    def loop(n, b, **kw):
        H.append(dict(name="c04::" + n, nofloat=True, stubs=True, unit=_LOOP_UNIT, inst="f64 (every bit pattern for all numeric results)", bounds=b, oracle=_LOOP_OR, timeout=1500, mem_gb=20, **kw))
    loop("c04_loop_sym_mi2", "max_iter<=2, symmetric cones, any time_limit/tolerances/step thresholds, any prior status")
    loop("c04_loop_asym_pd_mi2", "max_iter<=2, nonsymmetric cones with primal-dual scaling (strategy switch possible); barrier search cut to 3 evaluations")
    loop("c04_loop_asym_dual_mi1", "max_iter<=1, nonsymmetric cones, dual scaling only")
    loop("c04_loop_sym_mi4", "max_iter<=4, symmetric cones", tier="thorough", )
    loop("c04_loop_asym_pd_mi3", "max_iter<=3, nonsymmetric, primal-dual scaling", tier="thorough")
    H.append(dict(name="verdict::c04_verdict_limits", **_H_VERDICT["c04_verdict_limits"]))
    # (c05::c04_collapse_k*: SupportedConeT::new_collapsed is not tractable, see DESIGN.md 6.2 item 15 - unregistered)
    H.append(dict(name="c05::c04_dims_inconsistent_panics", should_panic=True, no_cover_ok=True, unit="default::solver::_check_dimensions", inst="usize", bounds="all dimensions <= 3, 2 symbolic cones", timeout=900,
                  oracle="every inconsistent combination panics (the point after the check is unreachable)"))
    H.append(dict(name="c05::c04_dims_consistent_accepted", unit="default::solver::_check_dimensions", inst="usize", bounds="all dimensions <= 3", timeout=900, oracle="consistent dimensions never panic"))
    return H

PROPS["C04"] = {
    "native_tests": ["tv_timers"],
    "feature": "c04",
    "bounds_note": "main loop: max_iter <= 2 (quick) / <= 4 (thorough), every f64 value for every numeric result of every component; verdict logic: all f64",
    "outside": "panics or hangs *inside* the numeric components (KKT solve, AMD, faer, cone kernels) for extreme data; wall-clock behaviour; max_iter > 4 (the loop body is uniform in the iteration index: argued, not proved); dimension checks and cone collapsing are separate harnesses",
    "assumptions": ["stub components return arbitrary values of their result type (bool / f64 incl. NaN,inf)", "Timers methods are stubbed with empty bodies; the clock is an arbitrary non-decreasing reading assigned in the stub Info::update",
                    "RandomState::new stubbed with fixed keys so that Timers::default() can be constructed", "backtrack_step_to_barrier's 50-step loop is cut to 3 barrier evaluations"],
    "harnesses": _c04(),
}


_MAPS_UNIT_S = "kkt_assembly::_kkt_assemble_colcounts / _kkt_assemble_fill, SOC csc_colcount_sparsecone / csc_fill_sparsecone, csc utilities, driven by the hook assemble_kkt_matrix_soc_store (LDLDataMap::new + assemble_kkt_matrix statement for statement, sparse-map list held in a stack store; validated natively by tv_kkt)"
_MAPS_UNIT = "kkt_assembly::assemble_kkt_matrix (LDLDataMap::new, _kkt_assemble_colcounts, _kkt_assemble_fill, csc colcount_*/fill_* utilities, SOC sparse expansion fill); CompositeCone hook constructor; structure (patterns, layout, triangle) concrete, values symbolic"
_MAPS_OR = ("K canonical of dimension n+m+p, all entries in the requested triangle; map.P / map.A entries at the recorded (transposed for tril) positions with the user's values; diag_full/diagP point at every diagonal "
            "position (structural zeros where P has none); Hsblocks hit the diagonal (diagonal cones) or the packed triangle in order (dense cones); u,v,D of SOC expansions hit the extra columns/rows; all index sets disjoint and covering K")
PROPS["C11"] = {
    "native_tests": ["tv_composite", "tv_kkt"],
    "feature": "c11",
    "bounds_note": "n=2; P patterns enumerated (empty, diagonal, missing diagonals, full); cone layouts enumerated ([Zero1,NN2], [NN1,SOC3], [Exp]); 4 enumerated A patterns per harness (dense, last-row only, empty first column, scattered); symbolic values; both triangles",
    "outside": "generalised power cone expansions (p,q,r and their diagonal); layouts beyond those listed; LDLDataMap::new's own push loop for sparse layouts (the hook assemble_kkt_matrix_soc_store repeats it with a stack-held list; native test tv_kkt compares hook and real assembly); exp/pow Hs numerics; the real LDL engines",
    "assumptions": ["CompositeCone built by the hook constructor new_without_type_counts (identical to CompositeCone::new except the printing-only HashMap); RandomState::new stubbed with fixed keys"],
    "harnesses": _mk("c11", [
        ("c11_maps_znn_p3_triu", dict(stubs=True, unit=_MAPS_UNIT, inst="f64 small ints (values only copied)", bounds="cones [Zero1,NN2], P full triu, A 3x2 nnz=3, triu", oracle=_MAPS_OR, timeout=1200, mem_gb=20)),
        ("c11_maps_znn_p2_tril", dict(stubs=True, unit=_MAPS_UNIT, inst="f64", bounds="cones [Zero1,NN2], P missing (1,1), tril", oracle=_MAPS_OR, timeout=1200, mem_gb=20)),
        ("c11_maps_znn_p0_triu", dict(stubs=True, rot=True, unit=_MAPS_UNIT, inst="f64", bounds="cones [Zero1,NN2], empty P, triu", oracle=_MAPS_OR, timeout=1200, mem_gb=20)),
        ("c11_maps_znn_p4_tril", dict(stubs=True, tier="thorough", unit=_MAPS_UNIT, inst="f64", bounds="cones [Zero1,NN2], P only (0,1), tril", oracle=_MAPS_OR, timeout=3600, mem_gb=20)),
        ("c11_maps_nnsoc3_p1_triu", dict(stubs=True, unit=_MAPS_UNIT, inst="f64", bounds="cones [NN1,SOC3] (dense 3x3 block), diagonal P, triu", oracle=_MAPS_OR, timeout=1800, mem_gb=20)),
        ("c11_maps_nnsoc3_p5_tril", dict(stubs=True, tier="thorough", unit=_MAPS_UNIT, inst="f64", bounds="cones [NN1,SOC3], P only (1,1), tril", oracle=_MAPS_OR, timeout=5400, mem_gb=20)),
        ("c11_maps_soc5_p0_triu", dict(stubs=True, unit=_MAPS_UNIT_S, inst="f64", bounds="cones [SOC5] (sparse expansion: 2 extra rows/columns), empty P, triu, one A pattern", oracle=_MAPS_OR + "; u, v columns and expansion diagonal at their recorded positions", timeout=2400, mem_gb=24)),
        ("c11_maps_soc2soc5_p0_triu", dict(stubs=True, unit=_MAPS_UNIT_S, inst="f64", bounds="cones [SOC2 (dense 2x2 block), SOC5 (sparse expansion)], empty P, triu, one A pattern", oracle="same", timeout=3000, mem_gb=24)),
        ("c11_maps_soc5_p2_tril", dict(stubs=True, tier="thorough", unit=_MAPS_UNIT_S, inst="f64", bounds="cones [SOC5], P missing (1,1), tril", oracle="same", timeout=3600, mem_gb=24)),
        ("c11_maps_nnsoc5z_p1_tril", dict(stubs=True, tier="thorough", unit=_MAPS_UNIT_S, inst="f64", bounds="cones [NN1,SOC5,Zero1], diagonal P, tril", oracle="same", timeout=3600, mem_gb=24)),
        ("c11_maps_expsoc5_p0_tril", dict(stubs=True, tier="thorough", unit=_MAPS_UNIT_S, inst="f64", bounds="cones [Exp (dense 3x3 block), SOC5], empty P, tril", oracle="same", timeout=3600, mem_gb=24)),
        ("c11_maps_exp_p4_triu", dict(stubs=True, rot=True, unit=_MAPS_UNIT, inst="f64", bounds="cones [Exp] dense block, P only (0,1), triu", oracle=_MAPS_OR, timeout=1800, mem_gb=20)),
        ("c11_kkt_sync_nn2_reg", dict(stubs=True, nofloat=True, unit="DirectLDLKKTSolver::{update_P, update_A, update -> regularize_and_refactor, _update_values, _fill_signs} against a mirror LDL engine", inst="f64 small ints", bounds="n=2, cones [NN2], static regularisation on", timeout=2400, mem_gb=24,
            oracle="at refactor the engine's copy == the KKT matrix (every P/A/Hs/diagonal write reached it); afterwards KKT holds the new P,A and an UNregularised diagonal; engine got +eps/-eps by sign; sign vector")),
        ("c11_kkt_sync_zero1_nn1_noreg", dict(stubs=True, nofloat=True, rot=True, unit="same", inst="f64", bounds="cones [Zero1,NN1], regularisation off", timeout=2400, mem_gb=24, oracle="same, no shift")),
    ]) + [dict(name="c13::c13_soc3_hs_block_p7", unit="SecondOrderCone::get_Hs vs mul_Hs", inst="GF(7)", bounds="dim 3, all normalised w, eta, x", oracle="unpacked KKT block == operator applied when recovering the slack step", timeout=1500),
          dict(name="c13::c13_soc5_identity_scaling_resets_expansion", unit="SecondOrderCone::set_identity_scaling, mul_Hs, get_Hs (sparse expansion)", inst="GF(17)", bounds="dim 5; arbitrary previous contents of w, eta, d, u, v", oracle="afterwards the expansion written into K is the operator mul_Hs == identity", timeout=1200),
          dict(name="c13::c13_soc5_update_scaling_sparse_p17", unit="SecondOrderCone::update_scaling / sparse_data / get_Hs / mul_Hs", inst="GF(17)", bounds="dim 5 (two symbolic tail entries)", oracle="eta^2 (D + uu' - vv') == mul_Hs", timeout=3000, mem_gb=24)],
}
PROPS["C13"] = {
    "feature": "c13",
    "bounds_note": "SOC dimension 3 (dense) and 5 (sparse expansion), NN dimension 2; GF(7) quick, GF(13) / GF(17) / GF(31) thorough: all field values",
    "outside": "floating-point accuracy near the cone boundary; PSD cone (LAPACK); the Nesterov-Todd identity (W'W) z = s and W z = lambda after update_scaling: they hold only for a coherent (positive) choice of the nested square roots, which a finite field cannot express - NOT decided; what is decided about update_scaling are the root-independent facts",
    "assumptions": ["sqrt in GF(p) is an arbitrary root; paths whose sqrt argument is not a square are cut (each harness has a cover witness behind the calls)", "the constant SQRT_2 is the canonical root of 2 (GF(7), GF(17), GF(31))"],
    "harnesses": _mk("c13", [
        ("c13_soc3_winv_w_p7", dict(unit="SecondOrderCone::mul_W / mul_Winv (_soc_mul_W_inner, _soc_mul_Winv_inner)", inst="GF(7)", bounds="dim 3, all normalised w (w0^2-|w1|^2=1), eta!=0", oracle="Winv (W x) == x", timeout=1500)),
        ("c13_soc3_w_winv_p7", dict(unit="same", inst="GF(7)", bounds="dim 3", oracle="W (Winv x) == x", timeout=1500)),
        ("c13_soc3_w_symmetric_p7", dict(unit="SecondOrderCone::mul_W", inst="GF(7)", bounds="dim 3", oracle="matrix read off by unit vectors equals its transpose; mul_W(T) == mul_W(N)", timeout=1500)),
        ("c13_soc3_w_alpha_beta_p7", dict(unit="SecondOrderCone::mul_W", inst="GF(7)", bounds="dim 3", oracle="y <- a W x + b y for all a,b,x,y", timeout=1500)),
        ("c13_soc3_winv_w", dict(tier="thorough", unit="same", inst="GF(13)", bounds="dim 3", oracle="Winv (W x) == x", timeout=9000, mem_gb=20)),
        ("c13_soc3_w_winv", dict(tier="thorough", unit="same", inst="GF(13)", bounds="dim 3", oracle="W (Winv x) == x", timeout=9000, mem_gb=20)),
        ("c13_soc3_w_symmetric", dict(tier="thorough", unit="same", inst="GF(13)", bounds="dim 3", oracle="symmetric; alpha/beta form", timeout=3600, mem_gb=20)),
        ("c13_soc3_hs_dense_p7", dict(unit="SecondOrderCone::mul_Hs", inst="GF(7)", bounds="dim 3", oracle="mul_Hs == W'W", timeout=1500)),
        ("c13_soc3_hs_dense", dict(tier="thorough", unit="same", inst="GF(13)", bounds="dim 3", oracle="same", timeout=9000)),
        ("c13_soc3_hs_block_p7", dict(unit="SecondOrderCone::get_Hs (dense packed block)", inst="GF(7)", bounds="dim 3", oracle="unpacked packed-triu block == mul_Hs", timeout=1500)),
        ("c13_soc3_update_scaling", dict(unit="SecondOrderCone::update_scaling", inst="GF(13)", bounds="dim 3, all s,z with square nonzero residuals", oracle="w normalised; eta^4 = res(s)/res(z)", timeout=2400, mem_gb=20)),
        ("c13_nn_scaling_pow2_f64", dict(nofloat=True, unit="NonnegativeCone::update_scaling / get_Hs / mul_Hs", inst="f64, s and z powers of two with an even exponent difference, exponents in [-120,120]", bounds="dim 2", oracle="KKT block == s/z exactly at every magnitude (ratios up to 2^240); block * x == mul_Hs(x)", timeout=1200)),
        ("c13_soc5_identity_scaling_resets_expansion", dict(unit="SecondOrderCone::set_identity_scaling, mul_Hs, get_Hs (sparse expansion)", inst="GF(17)", bounds="dim 5; arbitrary previous contents of w, eta, d, u, v; arbitrary x", oracle="afterwards mul_Hs == identity and eta^2 (D + uu' - vv') == mul_Hs", timeout=1200)),
        ("c13_soc3_identity_scaling", dict(unit="SecondOrderCone::set_identity_scaling, mul_Hs (dense)", inst="GF(17)", bounds="dim 3", oracle="mul_Hs == identity", timeout=900)),
        ("c13_soc5_update_scaling_sparse_p17", dict(unit="SecondOrderCone::update_scaling incl. sparse_data (u,v,d), get_Hs, mul_Hs", inst="GF(17)", bounds="dim 5 (two symbolic tail entries, the others zero)", oracle="as _p7", timeout=3000, mem_gb=24)),
        ("c13_soc5_update_scaling_sparse_p19", dict(tier="thorough", unit="same", inst="GF(19)", bounds="same", oracle="same", timeout=7200, mem_gb=24)),
        ("c13_soc5_update_scaling_sparse_p7", dict(unit="SecondOrderCone::update_scaling incl. sparse_data (u,v,d), get_Hs, mul_Hs", inst="GF(7): every scaling point at which all nested roots exist has v = 0, so this instance decides the d and u parts only (GF(11), GF(13): no scaling point exists, vacuous; GF(17) quick / GF(19) thorough are the informative ones)", bounds="dim 5 (two symbolic tail entries, the others zero)", oracle="w normalised; eta^4 = res(s)/res(z); eta^2(D+uu'-vv') == mul_Hs; D block = eta^2 diag(d,1,..)", timeout=2400, mem_gb=24)),
        ("c13_soc3_jordan_p7", dict(unit="SecondOrderCone::circ_op/inv_circ_op/affine_ds/combined_ds_shift (_combined_ds_shift_symmetric)", inst="GF(7)", bounds="dim 3", oracle="arrow product; inverse; lambda o lambda; W^-1 ds o W dz - sigma mu e", timeout=1800)),
        ("c13_soc3_jordan", dict(tier="thorough", unit="SecondOrderCone::circ_op/inv_circ_op/affine_ds/combined_ds_shift (_combined_ds_shift_symmetric)", inst="GF(13)", bounds="dim 3", oracle="arrow product; inverse; lambda o lambda; W^-1 ds o W dz - sigma mu e", timeout=9000)),
        ("c13_nn_scaling", dict(unit="NonnegativeCone::update_scaling/get_Hs/mul_Hs/mul_W/mul_Winv/affine_ds/Ds_from_Dz_offset", inst="GF(13)", bounds="dim 2", oracle="Hs z = s; lambda^2 = s z; Winv W = I; offset = ds/z", timeout=1200)),
    ]),
}
_c15 = [
    ("c15_soc3_range", dict(nofloat=True, unit="SecondOrderCone::step_length -> _step_length_soc_component, _soc_residual", inst="f64 every bit pattern", bounds="dim 3, alpha_max in (0,1]", oracle="0 <= alpha <= alpha_max for z and s; panic unreachable", timeout=1800, mem_gb=20)),
    ("c15_soc3_cases", dict(nofloat=True, unit="SecondOrderCone::step_length", inst="f64 finite", bounds="dim 3", oracle="zero direction => alpha_max", timeout=1200, mem_gb=20)),
    ("c15_soc3_scalar_part_pow2", dict(nofloat=True, unit="SecondOrderCone::step_length -> _step_length_soc_component", inst="f64: signed powers of two, exponents -30..30", bounds="dim 3, tail = 0", oracle="alpha <= -x0/y0 and alpha in {alpha_max, -x0/y0} (exact distance)", timeout=1800, mem_gb=20)),
    # c15_soc3_scalar_bound_interior (every finite f64 direction: alpha <= fl(-x0/y0) from an interior point): 30 min timeout on the unchanged tree - unregistered (outside)
    ("c15_soc3_two_roots_pow2", dict(nofloat=True, unit="SecondOrderCone::step_length -> _step_length_soc_component (root selection), _soc_residual", inst="f64: x0, y1 signed powers of two (exponents -60..20, i.e. directions down to 1e-18: no 'tiny direction' shortcut), y0 in {-3,-1,0,3}*|y1|", bounds="dim 3, x = (x0,0,0), nonzero tail entry in either position", oracle="alpha == min(alpha_max, smallest positive root of the boundary quadratic) exactly: x0/(4|y1|) of two positive roots, x0/|y1| of a +/- pair, alpha_max when both are negative, the single root x0/(2|y1|) when the direction lies on the boundary of -K (a == 0)", timeout=1800, mem_gb=20)),
    ("c15_nn2_range", dict(nofloat=True, unit="NonnegativeCone::step_length", inst="f64 every bit pattern", bounds="dim 2, any alpha_max", oracle="<= alpha_max; >= 0 from an interior point", timeout=1200)),
    ("c15_nn3_range", dict(nofloat=True, tier="thorough", unit="same", inst="f64", bounds="dim 3", oracle="same", timeout=2400)),
    ("c15_nn2_exact_pow2", dict(nofloat=True, unit="NonnegativeCone::step_length", inst="f64: signed powers of two with symbolic exponents -40..40", bounds="dim 2", oracle="alpha == min(alpha_max, min_{d<0} -z/d) exactly; blocking coordinate lands on the boundary", timeout=1800)),
    ("c15_nn3_exact_pow2", dict(nofloat=True, tier="thorough", unit="same", inst="same", bounds="dim 3", oracle="same", timeout=3000)),
    ("c15_zero_cone", dict(nofloat=True, unit="ZeroCone::step_length", inst="f64", bounds="dim 2", oracle="(alpha_max, alpha_max)")),
    ("c15_backtrack", dict(nofloat=True, unit="nonsymmetric_common::backtrack_search", inst="f64", bounds="arbitrary membership oracle (6 arbitrary answers), step 0.5, alpha_min = alpha_init/20", oracle="terminates; returns 0 or alpha_init*step^k; returned alpha accepted, all larger candidates rejected", timeout=1200)),
    ("c15_backtrack_long", dict(nofloat=True, unit="nonsymmetric_common::backtrack_search", inst="f64", bounds="alpha_init 1, step 1/2, alpha_min 2^-70 (up to 71 trials); the oracle (a function of the point shown, not of the call count) accepts exactly the point of the j-th candidate (j symbolic in 0..51) or nothing at all", oracle="returns 2^-j and leaves that point in the work vector; 0 after all 71 candidates if nothing is accepted: no trial budget other than alpha_min, never an untested value", timeout=1800, mem_gb=20)),
    ("c15_composite_nn_zero_nn", dict(nofloat=True, stubs=True, unit="CompositeCone::step_length (+ NonnegativeCone / ZeroCone)", inst="f64: signed powers of two", bounds="[NN1, Zero1, NN2]", oracle="common step == exact minimum over the cones' ratio tests and alpha_max; zero cone unrestricted", timeout=1800, mem_gb=20)),
    ("c15_shift_nn", dict(nofloat=True, stubs=True, unit="DefaultVariables::symmetric_initialization -> _shift_to_cone_interior, CompositeCone::margins/scaled_unit_shift", inst="f64, |v| <= 1e100", bounds="[NN2, Zero1]", oracle="afterwards s,z strictly positive in the NN cone; zero-cone slack 0; tau=kappa=1", timeout=1800)),
]
PROPS["C15"] = {
    "native_tests": ["tv_composite"],
    "feature": "c15",
    "bounds_note": "SOC dim 3, NN dim 2-3, composite [NN2,SOC3]; every f64 bit pattern unless stated",
    "outside": "numerical tightness of the SOC root; exp/pow/genpow membership predicates (transcendental); PSD eigenvalue step (LAPACK); strict interiority after an SOC shift",
    "assumptions": [],
    "harnesses": _mk("c15", _c15),
}
_C07_LOOP = dict(name="c04::c04_loop_asym_dual_mi1", nofloat=True, stubs=True, unit=_LOOP_UNIT, inst="f64", timeout=1500, mem_gb=20,
                 bounds="max_iter<=1, nonsymmetric cones / dual scaling (barrier backtracking active); Settings::core() hands the loop a POISONED max_iter, only the termination check sees the real one",
                 oracle=_LOOP_OR + "; every step taken under dual scaling was accepted by the barrier test; nothing depends on the poisoned budget")
PROPS["C07"] = {
    "native_tests": ["tv_composite", "tv_timers"],
    "feature": "c07",
    "bounds_note": "tau/kappa step: all positive finite tau,kappa, all step data; budget independence: the real main loop run with a poisoned max_iter (max_iter<=1), see C04",
    "outside": "interiority of s,z after a step for SOC/exp/pow/PSD cones (real-number reasoning about roots/logs); bit-reproducibility of arithmetic (determinism of f64 operations is assumed); tau',kappa' > 0 after the step (needs reasoning about a rounded product - not finished by the SAT back end)",
    "assumptions": ["max_iter is read only in DefaultInfo::check_termination (grep-level side condition stated in DESIGN.md)"],
    "harnesses": _mk("c15", [
        ("c07_alpha_range", dict(nofloat=True, stubs=True, unit="DefaultVariables::calc_step_length (empty composite cone)", inst="f64", bounds="tau,kappa,d_tau,d_kappa signed powers of two (2^-40..2^40), tau,kappa > 0; any max_step_fraction in (0,1]", oracle="0 <= alpha <= 1; affine step == exact distance to tau=0 / kappa=0 capped at 1; tau,kappa stay >= 0 (> 0 for a combined step with fraction < 1)", timeout=1800)),
        ("c15_nn2_range", dict(nofloat=True, unit="NonnegativeCone::step_length", inst="f64 every bit pattern", bounds="dim 2", oracle="<= alpha_max; nonnegative for interior points", timeout=1200)),
        ("c15_soc3_range", dict(nofloat=True, unit="SecondOrderCone::step_length", inst="f64", bounds="dim 3", oracle="step in [0, alpha_max]", timeout=1800, mem_gb=20)),
    ]) + [_C07_LOOP],
}
# strict interiority of the STARTING iterate (first clause of C07) is the shift decided in c15_shift_nn
PROPS["C07"]["harnesses"] = PROPS["C07"]["harnesses"] + [x for x in PROPS["C15"]["harnesses"] if x["name"] == "c15::c15_shift_nn"]

PROPS["C08"] = {
    "native_tests": ["tv_composite", "tv_kkt"],
    "feature": "c08",
    "bounds_note": "vectors of length 3, matrices 3x2 / 2x3 with 3 stored entries (symbolic canonical pattern), index lists of length 2 with arbitrary usize indices; GF(13) values",
    "outside": "check_data_update_allowed on a live DefaultSolver and the synchronisation of the KKT copy (constructing a solver needs AMD); end-to-end agreement of the following solve. KKT value maps: see C11; QDLDL's AtoPAPt map: see C12",
    "assumptions": [],
    "harnesses": _mk("c08", [
        ("c08_vector_full", dict(unit="VectorProblemDataUpdate for [T], Vec<T>, [T;0]", inst="GF(13)", bounds="len 3; lengths 2,3,4,0", oracle="right length: v = value*scale*c; wrong length: Err and untouched; empty: no-op")),
        ("c08_vector_partial", dict(unit="VectorProblemDataUpdate for Zip<..> and (Vec<usize>,Vec<T>)", inst="GF(13)", bounds="len 3, 2 arbitrary usize indices", oracle="Err <=> an index >= len; else listed entries = value*scale[idx]*c, others untouched")),
        ("c08_matrix_full", dict(unit="MatrixProblemDataUpdate for [T], Vec<T>, [T;0], CscMatrix<T> (check_equal_sparsity, lrscale, scale)", inst="GF(13)", bounds="3x2 nnz=3 symbolic pattern", oracle="entry k = l[row k] r[col k] c value_k; wrong length / pattern mismatch: Err and untouched; empty: no-op", timeout=1800, mem_gb=20)),
        ("c08_matrix_partial", dict(unit="MatrixProblemDataUpdate for Zip<..>/(Vec,Vec) -> CscMatrix::index_to_coord", inst="GF(13)", bounds="2x3 nnz=3 symbolic pattern (empty columns allowed), 2 arbitrary indices", oracle="Err <=> index >= nnz; else entry scaled by its true row/column", timeout=1800, mem_gb=20)),
        ("c08_norm_cache", dict(unit="DefaultProblemData::{new,get_normq,get_normb,clear_normq,clear_normb}", inst="f64 small ints, power-of-two scalings", bounds="n=m=2", oracle="after clear: norm of the new data in the user's scaling; before: cached", timeout=1200)),
    ]) + [dict(name="c11::c11_kkt_sync_nn2_reg", stubs=True, nofloat=True, unit="DirectLDLKKTSolver::{update_P, update_A, update} against a mirror LDL engine", inst="f64 small ints", bounds="n=2, cones [NN2]", timeout=2400, mem_gb=24,
                 oracle="new P and A values reach the LDL engine's own copy (engine copy == KKT at refactor) and the solver's KKT copy")],
}

# the normalisers ||q||, ||b|| of the relative residuals (C01/C02/C03) are cached values recomputed after updates
for _p in ("C01", "C02", "C03"):
    PROPS[_p]["harnesses"] = PROPS[_p]["harnesses"] + [x for x in PROPS["C08"]["harnesses"] if x["name"].endswith("c08_norm_cache")]

_EQ_UNIT = "DefaultProblemData::equilibrate (kkt_col_norms, scale_data, lrscale/lscale/hadamard, clip, CompositeCone::rectify_equilibration) + DefaultProblemData::new"
_EQ_OR = "P == c D P0 D, A == E A0 D, q == c D q0, b == E b0 with the recorded d,e,c; dinv*d == 1, einv*e == 1; E constant over non-scalar cones; patterns unchanged"
PROPS["C10"] = {
    "native_tests": ["tv_composite"],
    "feature": "c10",
    "bounds_note": "n=2, m=2..4, dense A, full-triu P, 1-2 Ruiz sweeps, arbitrary min/max scaling; GF(13) all values. f64 for 'disabled' and 'zero rows/cols'",
    "outside": "bounds of the cumulative factors for data that are not powers of two (rounded products of general mantissas); more than 2-3 sweeps; PSD cone; quality of the scaling",
    "assumptions": ["GF(13): order comparisons (max, clip) compare representatives; the asserted identity does not depend on them", "CompositeCone hook constructor; RandomState stub"],
    "harnesses": _mk("c10", [
        ("c10_exact_nn2_1sweep", dict(stubs=True, unit=_EQ_UNIT, inst="GF(13)", bounds="cones [NN2], 1 sweep", oracle=_EQ_OR, timeout=1800, mem_gb=20)),
        ("c10_exact_nn2_2sweeps", dict(stubs=True, tier="thorough", unit=_EQ_UNIT, inst="GF(13)", bounds="cones [NN2], 2 sweeps", oracle=_EQ_OR, timeout=7200, mem_gb=24)),
        ("c10_exact_nn1_soc2_1sweep", dict(stubs=True, unit=_EQ_UNIT, inst="GF(13)", bounds="cones [NN1,SOC2], 1 sweep (rectification)", oracle=_EQ_OR, timeout=2400, mem_gb=20)),
        ("c10_disabled", dict(stubs=True, nofloat=True, unit="DefaultProblemData::equilibrate", inst="f64 every bit pattern", bounds="n=m=2", oracle="equilibrate_enable=false: P,q,A,b bit-unchanged, identity scaling", timeout=1200)),
        ("c10_zero_rows_cols", dict(stubs=True, nofloat=True, tier="thorough", unit="DefaultProblemData::equilibrate", inst="f64", bounds="n=m=2, empty column 1 of [P;A], empty row 1 of A, 2 sweeps", oracle="d[1] == e[1] == 1 exactly", timeout=3600, mem_gb=20)),
        ("c10_bounds_pow2_2sweeps", dict(stubs=True, nofloat=True, tier="thorough", unit=_EQ_UNIT, inst="f64: data entries are powers of two with symbolic exponent in [-40,40] (24 orders of magnitude), default bounds 1e-4 / 1e4", bounds="n=m=1, 2 Ruiz sweeps", timeout=6000, mem_gb=28,
            oracle="cumulative d, e, c stay within [min_scaling, max_scaling] (8 ulp slack)")),
        ("c10_bounds_pow2_nonsquare_1sweep", dict(stubs=True, nofloat=True, unit=_EQ_UNIT, inst="f64: data entries are powers of two with symbolic exponent in [-40,40]", bounds="n=1, m=2 (non-square), P = 0, one sweep", timeout=2400, mem_gb=24, oracle="d[0], e[0] and the trailing row factor e[1] all within [min,max] (up to 8 ulp)")),
        ("c10_rectify", dict(unit="rectify_equilibration of NonnegativeCone/ZeroCone/SecondOrderCone/ExponentialCone/PowerCone", inst="GF(13)", bounds="dim 3", oracle="scalar cones: delta=1,false; others: true and delta*e == mean(e) (constant)", timeout=1200)),
    ]),
}



PROPS["C05"] = {
    "feature": "c05",
    "bounds_note": "P: all 16 2x2 patterns and 6 3x3 patterns, symbolic values",
    "outside": "cone collapsing (SupportedConeT::new_collapsed: splitting/merging/padding nonnegative cones) - its output Vec<enum> with data-dependent length and shrink_to_fit is not tractable for CBMC (two symbolic cones: out of memory; 81 calls with concrete kinds: symbolic execution alone > 37 min), harnesses kept unregistered in c05.rs; every other equivalence of C05 (row/variable permutations, objective scaling, presolve/equilibration toggles, LDL backends, thread counts, concurrent solver instances, bit-for-bit repeatability) relates two end-to-end floating-point runs or concerns concurrency: not expressible as a bounded symbolic query over this code - NOT decided. Only the two normalisations that make equivalent inputs *identical internal problems* are decided here",
    "assumptions": [],
    "harnesses": [
        dict(name="c16::c16_to_triu_2x2_all", unit="CscMatrix::to_triu / is_triu (DefaultProblemData::new converts a full P with to_triu iff !is_triu)", inst="i32", bounds="all 16 patterns of a 2x2 matrix, symbolic values", timeout=1500,
             oracle="to_triu(full) is the canonical upper triangle; a triu input is returned unchanged"),
        dict(name="c16::c16_to_triu_3x3_some", tier="thorough", unit="same", inst="i32", bounds="6 representative 3x3 patterns", timeout=1500, oracle="same"),
    ],
}
# "equilibration on/off are the same problem" rests on the equilibrated data being exactly the recorded scaling of
# the user's data: the C10 exactness harnesses are part of the C05 check as well
PROPS["C05"]["harnesses"] = PROPS["C05"]["harnesses"] + [x for x in PROPS["C10"]["harnesses"] if x["name"] in ("c10::c10_exact_nn2_1sweep", "c10::c10_exact_nn1_soc2_1sweep")]
PROPS["C05"]["native_tests"] = ["tv_composite"]

_JET = "first-order jets over GF(13): exact differentiation of the REAL generic code; ln / powf uninterpreted (arbitrary value, memoised per argument) with their derivative rules"
PROPS["C14"] = {
    "feature": "c14",
    "bounds_note": "exponential and 3-d power cone; all field values of z, all directions, all exponents alpha not in {0,1}; one derivative direction per query",
    "outside": "higher_correction == -1/2 third derivative (exp and pow): a degree-10 polynomial identity in ~10 field variables that CaDiCaL does not decide within an hour at GF(13), monolithically or with the Cholesky routines replaced by their specification, with full or basis directions; vacuous at GF(5)/GF(7) (the pivots of the exp Hessian are not squares there) - harnesses kept unregistered in c14.rs; only the Cholesky factorisation it calls is decided (c14_chol3_factor_is_llt); membership predicates vs. the cone / dual-cone definitions (transcendental inequalities); conjugacy of gradient_primal (Wright omega, Newton-Raphson: float iterations); primal-dual scaling matrix (depends on gradient_primal); unit_initialization constants; generalised power cone; anything about rounding",
    "assumptions": ["uninterpreted ln/powf: the identities decided are those that follow from the derivative rules alone (which is how the code derives them)",
                    "GF(13) identities transfer to the reals as identities of rational functions where denominators are nonzero"],
    "harnesses": _mk("c14", [
        ("c14_exp_grad_is_derivative_of_dual_barrier", dict(unit="ExponentialCone::barrier_dual / update_dual_grad_H", inst="Jet<GF(13)>", bounds="all z (z1,z3 != 0), symbolic direction index", oracle="d f*(z)/dz_j == grad[j]", timeout=2400, mem_gb=20)),
        ("c14_exp_hessian_is_derivative_of_grad", dict(unit="ExponentialCone::update_dual_grad_H", inst="Jet<GF(13)>", bounds="all z, symbolic j", oracle="d grad[i]/dz_j == H[i][j] for all i", timeout=2400, mem_gb=20)),
        ("c14_chol3_factor_is_llt", dict(unit="DenseMatrixSym3::cholesky_3x3_explicit_factor", inst="GF(13)", bounds="all symmetric 3x3 H", oracle="success => L L' == H, nonzero diagonal; failure => a leading principal minor vanishes", timeout=1800, mem_gb=20)),
        ("c14_pow_grad_is_derivative_of_dual_barrier", dict(unit="PowerCone::barrier_dual / update_dual_grad_H", inst="Jet<GF(13)>", bounds="all z != 0, all alpha", oracle="d f*(z)/dz_j == grad[j]", timeout=2400, mem_gb=20)),
        ("c14_pow_hessian_is_derivative_of_grad", dict(unit="PowerCone::update_dual_grad_H", inst="Jet<GF(13)>", bounds="all z, alpha, j", oracle="d grad[i]/dz_j == H[i][j]", timeout=2400, mem_gb=20)),
        ("c14_pow_gradient_primal_assembly", dict(stubs=True, nofloat=True, unit="PowerCone::gradient_primal (the Newton-Raphson scalar solve _newton_raphson_powcone stubbed: arbitrary positive power of two)", inst="f64, factors powers of two (alpha in {1/8,1/4,1/2}, s_i = +-2^k, |k| <= 10)", bounds="-", oracle="g3 has the sign of s3; g1 = -(a g3 s3 + 1 + a)/s1, g2 = -((1-a) g3 s3 + 2 - a)/s2 for THAT g3 (=> <s,g> = -3 whatever the scalar solve returns)", timeout=1200)),
        ("c14_pow_membership_symmetric_in_s3", dict(unit="PowerCone::is_primal_feasible / is_dual_feasible", inst="Jet<GF(13)> (exp, ln uninterpreted and memoised)", bounds="all s, all alpha != 0,1", oracle="membership invariant under s3 -> -s3 (primal and dual); s1 = 0 or s2 = 0 never interior", timeout=1200)),
        ("c14_dual_scaling_is_mu_times_hessian", dict(unit="Nonsymmetric3DConeUtils::use_dual_scaling, ExponentialCone::get_Hs / mul_Hs", inst="GF(13)", bounds="all H, mu, x", oracle="Hs == mu H; get_Hs / mul_Hs expose Hs", timeout=1200)),
    ]),
}
